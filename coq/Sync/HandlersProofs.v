From Coq Require Import List NArith Bool Lia Permutation.
From Coq Require Import ZifyBool ZifyN ZifyNat.
From LE Require Import Sync.Handlers.
Import ListNotations.
Local Open Scope N_scope.

Lemma u32_small : forall x, x < W32 -> u32 x = x.
Proof. intros x H. unfold u32. apply N.mod_small. exact H. Qed.

Lemma u32_lt : forall x, u32 x < W32.
Proof. intros x. unfold u32. apply N.mod_lt. unfold W32. lia. Qed.

Lemma sub32_small : forall a b, b <= a -> a < W32 -> sub32 a b = a - b.
Proof.
  intros a b Hle Ha. unfold sub32. rewrite (u32_small b) by lia. unfold u32.
  replace (a + W32 - b) with ((a - b) + 1 * W32) by lia. rewrite N.mod_add by (unfold W32; lia).
  apply N.mod_small. lia.
Qed.

(* ------------------------------------------------------------------ index_of *)
Lemma index_of_Some : forall id l i, index_of id l = Some i -> nth_error l i = Some id /\ (i < length l)%nat.
Proof.
  induction l as [|x t IH]; intros i H; cbn [index_of] in H; [discriminate|].
  destruct (x =? id) eqn:E.
  - injection H as <-. apply N.eqb_eq in E. subst. split; [reflexivity|cbn; lia].
  - destruct (index_of id t) as [j|]; [|discriminate]. injection H as <-. destruct (IH j eq_refl) as [H1 H2].
    split; [exact H1|cbn; lia].
Qed.

Lemma index_of_None : forall id l, index_of id l = None -> ~ In id l.
Proof.
  induction l as [|x t IH]; intros H; cbn [index_of] in H; [intros []|].
  destruct (x =? id) eqn:E; [discriminate|]. destruct (index_of id t); [discriminate|].
  intros [Hx|Hin]; [subst; rewrite N.eqb_refl in E; discriminate|]. apply IH; [reflexivity|assumption].
Qed.

Lemma index_of_In : forall id l, In id l -> exists i, index_of id l = Some i.
Proof.
  intros id l Hin. destruct (index_of id l) as [i|] eqn:E; [exists i; reflexivity|].
  exfalso. eapply index_of_None; eassumption.
Qed.

Lemma NoDup_nth_error_inj : forall (l : list N) i j x, NoDup l ->
  nth_error l i = Some x -> nth_error l j = Some x -> i = j.
Proof.
  intros l i j x Hnd Hi Hj. rewrite NoDup_nth_error in Hnd. apply Hnd.
  - apply nth_error_Some. congruence.
  - congruence.
Qed.

(* ------------------------------------------------------------------ sort_desc: the head has the largest height *)
Lemma In_insert_desc : forall b l x, In x (insert_desc b l) <-> x = b \/ In x l.
Proof.
  induction l as [|a t IH]; intros x; cbn [insert_desc].
  - cbn. intuition.
  - destruct (fst a <? fst b); cbn [In]; [intuition|]. rewrite IH. intuition.
Qed.

Lemma In_sort_desc : forall l x, In x (sort_desc l) <-> In x l.
Proof.
  induction l as [|a t IH]; intros x; cbn [sort_desc fold_right]; [reflexivity|].
  rewrite In_insert_desc. fold (sort_desc t). rewrite IH. cbn [In]. intuition.
Qed.

Definition head_max (l : list blk) : Prop :=
  match l with [] => True | h :: t => forall x, In x t -> fst x <= fst h end.

Fixpoint desc (l : list blk) : Prop :=
  match l with
  | [] => True
  | a :: t => (forall x, In x t -> fst x <= fst a) /\ desc t
  end.

Lemma insert_desc_desc : forall b l, desc l -> desc (insert_desc b l).
Proof.
  induction l as [|a t IH]; intros Hd; cbn [insert_desc].
  - cbn. split; [intros x []|exact I].
  - destruct Hd as [Ha Ht]. destruct (fst a <? fst b) eqn:E.
    + cbn [desc]. split; [|split; assumption]. intros x [<-|Hx]; [lia|]. specialize (Ha x Hx). lia.
    + cbn [desc]. split; [|apply IH; assumption]. intros x Hx. apply In_insert_desc in Hx.
      destruct Hx as [->|Hx]; [lia|apply Ha; assumption].
Qed.

Lemma sort_desc_desc : forall l, desc (sort_desc l).
Proof. induction l; cbn [sort_desc fold_right]; [exact I|]. apply insert_desc_desc. assumption. Qed.

Lemma hcb_from_spec : forall l,
  match hcb_from l with
  | HFound id => exists h, In (h, id) l /\ forall x, In x l -> fst x <= h
  | HNoData => l = []
  | HBan => False
  end.
Proof.
  intros l. unfold hcb_from. pose proof (sort_desc_desc l) as Hd. pose proof (In_sort_desc l) as Hin.
  destruct (sort_desc l) as [|[h id] t].
  - destruct l as [|a t]; [reflexivity|]. exfalso. apply (Hin a). left; reflexivity.
  - cbn [snd]. exists h. split; [apply Hin; left; reflexivity|]. intros x Hx. apply Hin in Hx.
    destruct Hd as [Hd _]. destruct Hx as [<-|Hx]; [cbn; lia|apply (Hd x Hx)].
Qed.

Lemma In_collect : forall c req h id, In (h, id) (collect c req) <-> In id req /\ height_of_id c id = Some h.
Proof.
  intros c req h id. unfold collect. rewrite in_flat_map. split.
  - intros [x [Hx Hin]]. destruct (height_of_id c x) as [hx|] eqn:E; [|contradiction].
    destruct Hin as [Heq|[]]. injection Heq as <- <-. split; assumption.
  - intros [Hin E]. exists id. split; [assumption|]. rewrite E. left; reflexivity.
Qed.

(* the answer is the requested ID that lies highest on the responder's chain, whatever the order in which
   the goroutines delivered the headers *)
Lemma highest_common_is_max_of_intersection : forall c req found,
  Permutation found (collect c req) ->
  match hcb_from found with
  | HFound id => In id req /\ exists h, height_of_id c id = Some h /\
                 forall id' h', In id' req -> height_of_id c id' = Some h' -> h' <= h
  | HNoData => forall id, In id req -> height_of_id c id = None
  | HBan => False
  end.
Proof.
  intros c req found Hp. pose proof (hcb_from_spec found) as H.
  destruct (hcb_from found) as [| |id]; [exact H| |].
  - subst found. intros id Hid. destruct (height_of_id c id) as [h|] eqn:E; [|reflexivity].
    exfalso. assert (Hin : In (h, id) (collect c req)) by (apply In_collect; split; assumption).
    apply Permutation_nil in Hp. rewrite Hp in Hin. contradiction.
  - destruct H as [h [Hin Hmax]].
    assert (Hin' : In (h, id) (collect c req)) by (eapply Permutation_in; eassumption).
    apply In_collect in Hin'. destruct Hin' as [Hreq Hh]. split; [assumption|]. exists h. split; [assumption|].
    intros id' h' Hreq' Hh'. assert (Hc : In (h', id') (collect c req)) by (apply In_collect; split; assumption).
    apply Permutation_sym in Hp. pose proof (Permutation_in _ Hp Hc) as Hf. apply (Hmax _ Hf).
Qed.

(* on a chain without duplicate IDs the height determines the ID: the answer itself is order independent *)
Lemma height_of_id_inj : forall c id1 id2 h, NoDup (ids c) ->
  height_of_id c id1 = Some h -> height_of_id c id2 = Some h -> id1 = id2.
Proof.
  intros c id1 id2 h Hnd H1 H2. unfold height_of_id in *.
  destruct (index_of id1 (ids c)) as [i|] eqn:E1; [|discriminate].
  destruct (index_of id2 (ids c)) as [j|] eqn:E2; [|discriminate].
  cbn in H1, H2. injection H1 as H1. injection H2 as H2. assert (i = j) by lia. subst j.
  apply index_of_Some in E1, E2. destruct E1 as [E1 _], E2 as [E2 _]. congruence.
Qed.

Lemma hcb_order_independent : forall c req f1 f2, NoDup (ids c) ->
  Permutation f1 (collect c req) -> Permutation f2 (collect c req) -> hcb_from f1 = hcb_from f2.
Proof.
  intros c req f1 f2 Hnd P1 P2.
  pose proof (highest_common_is_max_of_intersection c req f1 P1) as H1.
  pose proof (highest_common_is_max_of_intersection c req f2 P2) as H2.
  destruct (hcb_from f1) as [| |a], (hcb_from f2) as [| |b]; try contradiction; try reflexivity.
  - destruct H2 as [Hb [h [Hh _]]]. rewrite (H1 b Hb) in Hh. discriminate.
  - destruct H1 as [Ha [h [Hh _]]]. rewrite (H2 a Ha) in Hh. discriminate.
  - destruct H1 as [Ha [ha [Hha Hma]]], H2 as [Hb [hb [Hhb Hmb]]].
    pose proof (Hma b hb Hb Hhb). pose proof (Hmb a ha Ha Hha). assert (ha = hb) by lia. subst hb.
    f_equal. eapply height_of_id_inj; eassumption.
Qed.

(* malformed requests are never answered *)
Lemma hcb_malformed : forall c r,
  (r = None \/ r = Some [] \/ exists l, r = Some l /\ exists x, In x l /\ snd x = false) -> hcb c r = HBan.
Proof.
  intros c r [->|[->|[l [-> [x [Hin Hx]]]]]]; [reflexivity|reflexivity|].
  unfold hcb. destruct l as [|a t]; [reflexivity|].
  assert (Hf : forallb snd (a :: t) = false).
  { destruct (forallb snd (a :: t)) eqn:E; [|reflexivity]. rewrite forallb_forall in E. rewrite (E x Hin) in Hx. discriminate. }
  rewrite Hf. reflexivity.
Qed.

(* ------------------------------------------------------------------ blocks from ID *)
Lemma nth_error_skipn_cons : forall (A : Type) (l : list A) s x, nth_error l s = Some x -> skipn s l = x :: skipn (S s) l.
Proof.
  induction l as [|a t IH]; intros s x H; destruct s; cbn in *; try discriminate.
  - injection H as ->. reflexivity.
  - apply IH. exact H.
Qed.

Lemma between_char : forall n c s,
  (s + n <= length (ids c))%nat ->
  between c (g0 c + N.of_nat s) n = Some (number (g0 c + N.of_nat s) (firstn n (skipn s (ids c)))).
Proof.
  induction n as [|n IH]; intros c s Hlen; cbn [between firstn number]; [reflexivity|].
  unfold id_at. assert (E : (g0 c + N.of_nat s <? g0 c) = false) by lia. rewrite E.
  replace (N.to_nat (g0 c + N.of_nat s - g0 c)) with s by lia.
  destruct (nth_error (ids c) s) as [x|] eqn:En.
  - rewrite (nth_error_skipn_cons _ _ _ _ En). cbn [firstn number].
    replace (g0 c + N.of_nat s + 1) with (g0 c + N.of_nat (S s)) by lia.
    rewrite IH by lia. reflexivity.
  - apply nth_error_None in En. lia.
Qed.

Lemma insert_asc_front : forall b l, (forall x, In x l -> fst b < fst x) -> insert_asc b l = b :: l.
Proof.
  intros b [|a t] H; [reflexivity|]. cbn [insert_asc]. specialize (H a (or_introl eq_refl)).
  assert (E : (fst b <? fst a) = true) by lia. rewrite E. reflexivity.
Qed.

Lemma number_heights : forall l h x, In x (number h l) -> h <= fst x.
Proof.
  induction l as [|a t IH]; intros h x Hin; [contradiction|]. cbn [number] in Hin.
  destruct Hin as [<-|Hin]; [cbn; lia|]. specialize (IH _ _ Hin). lia.
Qed.

Lemma sort_asc_number : forall l h, sort_asc (number h l) = number h l.
Proof.
  induction l as [|a t IH]; intros h; [reflexivity|]. cbn [number sort_asc fold_right].
  fold (sort_asc (number (h + 1) t)). rewrite IH. apply insert_asc_front.
  intros x Hx. apply number_heights in Hx. cbn. lia.
Qed.

Lemma number_length : forall l h, length (number h l) = length l.
Proof. induction l; intros h; cbn; [reflexivity|]. rewrite IHl. reflexivity. Qed.

Lemma tip_height_eq : forall c, ids c <> [] -> tip_height c = g0 c + N.of_nat (length (ids c) - 1).
Proof.
  intros c Hne. unfold tip_height. destruct (ids c) as [|a t]; [congruence|]. cbn [length]. lia.
Qed.

Lemma blocks_from_id_consecutive_capped : forall c id i,
  wf_chain c -> index_of id (ids c) = Some i ->
  bfi c (Some (id, true)) = BBlocks (following c i).
Proof.
  intros c id i (Hne & Hnd & Hb) Hi. unfold bfi, height_of_id. rewrite Hi. cbn [option_map].
  destruct (index_of_Some _ _ _ Hi) as [_ Hlt]. set (len := length (ids c)) in *.
  rewrite (tip_height_eq c Hne). fold len. unfold following, cap.
  destruct (g0 c + N.of_nat i <? g0 c + N.of_nat (len - 1)) eqn:Elt.
  - assert (Hs : sub32 (g0 c + N.of_nat (len - 1)) (g0 c + N.of_nat i) = N.of_nat (len - 1 - i)).
    { rewrite sub32_small by lia. lia. }
    rewrite Hs. rewrite (u32_small (g0 c + N.of_nat i + 1)) by lia.
    destruct (103 <? N.of_nat (len - 1 - i)) eqn:Ecap.
    + rewrite (u32_small (g0 c + N.of_nat i + 103)) by lia. unfold get_between.
      assert (Hle : (g0 c + N.of_nat i + 1 <=? g0 c + N.of_nat i + 103) = true) by lia. rewrite Hle.
      assert (Hnh : (g0 c + N.of_nat i + 103 =? W32 - 1) = false) by lia. rewrite Hnh.
      rewrite sub32_small by lia.
      replace (g0 c + N.of_nat i + 103 - (g0 c + N.of_nat i + 1) + 1) with 103 by lia.
      rewrite (u32_small 103) by (unfold W32; lia). cbn [N.eqb].
      replace (g0 c + N.of_nat i + 1) with (g0 c + N.of_nat (S i)) by lia.
      rewrite between_char by (fold len; lia). rewrite sort_asc_number. reflexivity.
    + unfold get_between.
      assert (Hle : (g0 c + N.of_nat i + 1 <=? g0 c + N.of_nat (len - 1)) = true) by lia. rewrite Hle.
      assert (Hnh : (g0 c + N.of_nat (len - 1) =? W32 - 1) = false) by lia. rewrite Hnh.
      rewrite sub32_small by lia.
      replace (g0 c + N.of_nat (len - 1) - (g0 c + N.of_nat i + 1) + 1) with (N.of_nat (len - 1 - i)) by lia.
      rewrite (u32_small (N.of_nat (len - 1 - i))) by lia.
      assert (Hnz : (N.of_nat (len - 1 - i) =? 0) = false) by lia. rewrite Hnz.
      rewrite Nat2N.id.
      replace (g0 c + N.of_nat i + 1) with (g0 c + N.of_nat (S i)) by lia.
      rewrite between_char by (fold len; lia). rewrite sort_asc_number. do 2 f_equal.
      assert (Hl : length (skipn (S i) (ids c)) = (len - 1 - i)%nat) by (rewrite skipn_length; fold len; lia).
      rewrite !firstn_all2; [reflexivity| |]; rewrite Hl; lia.
  - assert (Hi' : i = (len - 1)%nat) by lia.
    rewrite skipn_all2 by (fold len; lia). rewrite firstn_nil. reflexivity.
Qed.

(* the shape promised by the property text: consecutive heights following the requested block, ascending,
   never more than the cap, all on the own chain *)
Lemma number_nth : forall l h k x, nth_error (number h l) k = Some x ->
  fst x = h + N.of_nat k /\ nth_error l k = Some (snd x).
Proof.
  induction l as [|a t IH]; intros h k x H; destruct k; cbn in *; try discriminate.
  - injection H as <-. cbn. split; [lia|reflexivity].
  - destruct (IH _ _ _ H) as [H1 H2]. split; [lia|assumption].
Qed.

Lemma nth_error_firstn_some : forall (A : Type) n (l : list A) k x,
  nth_error (firstn n l) k = Some x -> nth_error l k = Some x.
Proof.
  induction n as [|n IH]; intros [|a t] k x H; destruct k; cbn in *; try discriminate; [exact H|apply IH; exact H].
Qed.

Lemma nth_error_skipn' : forall (A : Type) s (l : list A) k, nth_error (skipn s l) k = nth_error l (s + k).
Proof.
  induction s as [|s IH]; intros [|a t] k; cbn; try reflexivity; [destruct k; reflexivity|apply IH].
Qed.

Lemma following_shape : forall c i,
  (length (following c i) <= 103)%nat /\
  forall k x, nth_error (following c i) k = Some x ->
    fst x = g0 c + N.of_nat i + 1 + N.of_nat k /\ nth_error (ids c) (S i + k) = Some (snd x).
Proof.
  intros c i. unfold following. split.
  - rewrite number_length, firstn_length. unfold cap. lia.
  - intros k x H. destruct (number_nth _ _ _ _ H) as [H1 H2]. split; [exact H1|].
    apply nth_error_firstn_some in H2. rewrite nth_error_skipn' in H2. exact H2.
Qed.

Lemma bfi_unknown_id : forall c id, ~ In id (ids c) -> bfi c (Some (id, true)) = BErr.
Proof.
  intros c id Hn. unfold bfi, height_of_id. destruct (index_of id (ids c)) as [i|] eqn:E; [|reflexivity].
  exfalso. apply Hn. apply index_of_Some in E. destruct E as [E _]. eapply nth_error_In; eassumption.
Qed.

Lemma bfi_malformed : forall c r, (r = None \/ exists id, r = Some (id, false)) -> bfi c r = BBan.
Proof. intros c r [->|[id ->]]; reflexivity. Qed.

(* the original handler fails close to the uint32 limit *)
Lemma blocks_from_id_orig_refuted :
  exists c id i, wf_chain c /\ index_of id (ids c) = Some i /\ bfi_orig c (Some (id, true)) <> BBlocks (following c i).
Proof.
  exists (Build_chain 4294967196 [1; 2; 3]), 1, 0%nat. split; [|split].
  - split; [discriminate|]. split; [repeat constructor; cbn; intuition; discriminate|]. unfold W32. cbn. lia.
  - reflexivity.
  - vm_compute. discriminate.
Qed.

(* ------------------------------------------------------------------ height helpers *)
Lemma gap_loop_ge : forall fuel start minimum gap i x,
  minimum + (i + N.of_nat fuel) * gap < W32 -> start < W32 ->
  In x (gap_loop start minimum gap i fuel) -> minimum <= x /\ x <= start.
Proof.
  induction fuel as [|k IH]; intros start minimum gap i x Hb Hs Hin; [contradiction|].
  cbn [gap_loop] in Hin.
  assert (Hig : i * gap < W32) by nia.
  assert (Hmg : minimum + i * gap < W32) by nia.
  rewrite (u32_small (i * gap)) in Hin by assumption. rewrite (u32_small (minimum + i * gap)) in Hin by assumption.
  destruct (start <? minimum + i * gap) eqn:E; [contradiction|].
  destruct Hin as [<-|Hin].
  - rewrite sub32_small by lia. lia.
  - apply (IH start minimum gap (i + 1)); [|assumption|assumption]. nia.
Qed.

(* every height whose ID is offered to the peer during the common-block search is at or above the finalized
   height (the [minimum]); stated for the non-wrapping range of the arithmetic *)
Lemma gap_heights_not_below_minimum : forall start minimum gap num x,
  start < W32 -> minimum + num * gap < W32 ->
  In x (height_with_gap start minimum gap num) -> minimum <= x.
Proof.
  intros start minimum gap num x Hs Hb Hin. unfold height_with_gap in Hin.
  destruct (start <=? minimum); [destruct Hin as [<-|[]]; lia|].
  apply gap_loop_ge in Hin; [lia| |assumption]. nia.
Qed.

Lemma gap_heights_wrap_witness :
  exists start minimum gap num x, start < W32 /\ minimum < W32 /\
    In x (height_with_gap start minimum gap num) /\ x < minimum.
Proof.
  exists 4294967295, 4294967291, 10, 10, 4294967285. vm_compute. repeat split; try reflexivity. right. left. reflexivity.
Qed.

Lemma last_loop_le : forall fuel start i x, start < W32 -> i + N.of_nat fuel < W32 ->
  In x (last_loop start i fuel) -> x <= start /\ start < x + (i + N.of_nat fuel).
Proof.
  induction fuel as [|k IH]; intros start i x Hs Hb Hin; [contradiction|]. cbn [last_loop] in Hin.
  rewrite (u32_small i) in Hin by lia. destruct (start <? i) eqn:E; [contradiction|].
  destruct Hin as [<-|Hin].
  - rewrite sub32_small by lia. lia.
  - apply (IH start (i + 1)) in Hin; [lia|assumption|lia].
Qed.

Lemma start_search_height_spec : forall h r, 0 < r -> h < W32 ->
  let s := start_search_height h r in s <= h /\ (s mod r = 0) /\ (0 < h -> s < h /\ h <= s + r).
Proof.
  intros h r Hr Hh. unfold start_search_height. cbv zeta.
  set (cr := (h + r - 1) / r).
  assert (Hdiv : r * cr <= h + r - 1 < r * (cr + 1)).
  { unfold cr. pose proof (N.mul_div_le (h + r - 1) r). pose proof (N.mul_succ_div_gt (h + r - 1) r). lia. }
  destruct (cr =? 0) eqn:E.
  - assert (cr = 0) by lia. split; [lia|]. split; [apply N.mod_0_l; lia|]. intros Hpos. nia.
  - assert (Hsm : (cr - 1) * r < W32) by nia. rewrite (u32_small _ Hsm).
    split; [nia|]. split; [apply N.mod_mul; lia|]. intros _. nia.
Qed.
