From Coq Require Import List NArith Bool Lia Permutation.
From Coq Require Import ZifyBool ZifyN ZifyNat.
From LE Require Import Sync.PeerSelect.
Import ListNotations.
Local Open Scope N_scope.

(* ------------------------------------------------------------------ the two "largest" filters *)
Fixpoint maxf (f : ni -> N) (l : list ni) (m : N) : N :=
  match l with [] => m | v :: t => maxf f t (N.max m (f v)) end.

Lemma maxf_ge_init : forall f l m, m <= maxf f l m.
Proof. induction l; intros m; cbn [maxf]; [lia|]. specialize (IHl (N.max m (f a))). lia. Qed.

Lemma maxf_ge_elem : forall f l m p, In p l -> f p <= maxf f l m.
Proof.
  induction l; intros m p Hin; [contradiction|]. cbn [maxf]. destruct Hin as [<-|Hin].
  - pose proof (maxf_ge_init f l (N.max m (f a))). lia.
  - apply IHl; assumption.
Qed.

Lemma maxf_attained : forall f l m, maxf f l m = m \/ exists p, In p l /\ f p = maxf f l m.
Proof.
  induction l; intros m; cbn [maxf]; [left; reflexivity|].
  destruct (IHl (N.max m (f a))) as [E|[p [Hin E]]].
  - destruct (N.max_spec m (f a)) as [[_ Hm]|[_ Hm]]; rewrite Hm in E.
    + right. exists a. split; [left; reflexivity|]. rewrite Hm. symmetry. exact E.
    + left. rewrite Hm. exact E.
  - right. exists p. split; [right; assumption|assumption].
Qed.

Lemma largest_loop_char : forall f l m acc,
  largest_loop f l m acc =
  (if m =? maxf f l m then acc else []) ++ filter (fun v => f v =? maxf f l m) l.
Proof.
  induction l as [|v t IH]; intros m acc; cbn [largest_loop maxf filter].
  - rewrite N.eqb_refl, app_nil_r. reflexivity.
  - pose proof (maxf_ge_init f t (N.max m (f v))) as Hge.
    destruct (m <? f v) eqn:E1.
    + rewrite IH. assert (Hmx : N.max m (f v) = f v) by lia. rewrite Hmx in *.
      assert (Hne : (m =? maxf f t (f v)) = false) by lia. rewrite Hne.
      destruct (f v =? maxf f t (f v)); reflexivity.
    + destruct (f v =? m) eqn:E2.
      * rewrite IH. assert (Hmx : N.max m (f v) = m) by lia. rewrite Hmx in *.
        assert (Hfv : f v = m) by lia. rewrite Hfv.
        destruct (m =? maxf f t m); [rewrite <- app_assoc; reflexivity|reflexivity].
      * rewrite IH. assert (Hmx : N.max m (f v) = m) by lia. rewrite Hmx in *.
        assert (Hne : (f v =? maxf f t m) = false) by lia. rewrite Hne. reflexivity.
Qed.

Definition maxof (f : ni -> N) (l : list ni) : N :=
  match l with [] => 0 | v0 :: _ => maxf f l (f v0) end.

Lemma get_largest_filter : forall f l, get_largest f l = filter (fun v => f v =? maxof f l) l.
Proof.
  intros f [|v0 t]; [reflexivity|]. unfold get_largest, maxof. rewrite largest_loop_char.
  destruct (f v0 =? maxf f (v0 :: t) (f v0)); reflexivity.
Qed.

Lemma maxof_ge : forall f l p, In p l -> f p <= maxof f l.
Proof. intros f [|v0 t] p Hin; [contradiction|]. unfold maxof. apply maxf_ge_elem; assumption. Qed.

Lemma maxof_attained : forall f l, l <> [] -> exists p, In p l /\ f p = maxof f l.
Proof.
  intros f [|v0 t] Hne; [congruence|]. unfold maxof.
  destruct (maxf_attained f (v0 :: t) (f v0)) as [E|H]; [|exact H].
  exists v0. split; [left; reflexivity|symmetry; exact E].
Qed.

Lemma get_largest_nonempty : forall f l, l <> [] -> get_largest f l <> [].
Proof.
  intros f l Hne. destruct (maxof_attained f l Hne) as [p [Hin E]]. rewrite get_largest_filter.
  intro Hnil. assert (Hp : In p (filter (fun v => f v =? maxof f l) l)).
  { apply filter_In. split; [assumption|]. apply N.eqb_eq; assumption. }
  rewrite Hnil in Hp. contradiction.
Qed.

Lemma In_get_largest : forall f l x, In x (get_largest f l) <-> In x l /\ forall p, In p l -> f p <= f x.
Proof.
  intros f l x. rewrite get_largest_filter, filter_In. split.
  - intros [Hin E]. apply N.eqb_eq in E. split; [assumption|]. intros p Hp. rewrite E. apply maxof_ge; assumption.
  - intros [Hin Hall]. split; [assumption|]. apply N.eqb_eq.
    assert (Hne : l <> []) by (intro; subst; contradiction).
    destruct (maxof_attained f l Hne) as [p [Hp E]]. pose proof (Hall p Hp). pose proof (maxof_ge f l x Hin). lia.
Qed.

(* ------------------------------------------------------------------ frequency keys *)
Lemma keys_of_seen : forall l seen k, In k seen -> In k (keys_of l seen).
Proof.
  induction l; intros seen k Hin; cbn [keys_of]; [assumption|].
  destruct (existsb (N.eqb (bid a)) seen); apply IHl; [assumption|]. apply in_or_app. left; assumption.
Qed.

Lemma keys_of_complete : forall l seen v, In v l -> In (bid v) (keys_of l seen).
Proof.
  induction l; intros seen v Hin; [contradiction|]. cbn [keys_of]. destruct Hin as [<-|Hin].
  - destruct (existsb (N.eqb (bid a)) seen) eqn:E.
    + apply keys_of_seen. apply existsb_exists in E. destruct E as [k [Hk Ek]]. apply N.eqb_eq in Ek. subst. assumption.
    + apply keys_of_seen. apply in_or_app. right. left. reflexivity.
  - destruct (existsb (N.eqb (bid a)) seen); apply IHl; assumption.
Qed.

Lemma keys_of_sound : forall l seen k, In k (keys_of l seen) -> In k seen \/ exists v, In v l /\ bid v = k.
Proof.
  induction l; intros seen k Hin; cbn [keys_of] in Hin; [left; assumption|].
  destruct (existsb (N.eqb (bid a)) seen).
  - destruct (IHl _ _ Hin) as [H|[v [Hv E]]]; [left; assumption|]. right. exists v. split; [right; assumption|assumption].
  - destruct (IHl _ _ Hin) as [H|[v [Hv E]]].
    + apply in_app_or in H. destruct H as [H|[H|[]]]; [left; assumption|]. right. exists a. split; [left; reflexivity|assumption].
    + right. exists v. split; [right; assumption|assumption].
Qed.

Lemma count_id_pos : forall id l v, In v l -> bid v = id -> 0 < count_id id l.
Proof.
  intros id l v Hin E. unfold count_id.
  assert (Hf : In v (filter (fun w => bid w =? id) l)) by (apply filter_In; split; [assumption|apply N.eqb_eq; assumption]).
  destruct (filter (fun w => bid w =? id) l); [contradiction|]. cbn [length]. lia.
Qed.

Lemma count_id_zero : forall id l, (forall v, In v l -> bid v <> id) -> count_id id l = 0.
Proof.
  intros id l H. unfold count_id. induction l; [reflexivity|]. cbn [filter].
  destruct (bid a =? id) eqn:E.
  - apply N.eqb_eq in E. exfalso. apply (H a); [left; reflexivity|assumption].
  - apply IHl. intros v Hv. apply H. right; assumption.
Qed.

(* ------------------------------------------------------------------ the repaired map walk *)
Lemma pick_id_spec : forall order group mx cur,
  match cur with Some c => count_id c group = mx | None => mx = 0 end ->
  match pick_id order group mx cur with
  | Some w => (forall k, In k order -> count_id k group <= count_id w group) /\ mx <= count_id w group
  | None => cur = None /\ forall k, In k order -> count_id k group = 0
  end.
Proof.
  induction order as [|id t IH]; intros group mx cur Hinv; cbn [pick_id].
  - destruct cur as [c|]; [split; [intros k []|lia]|split; [reflexivity|intros k []]].
  - destruct (mx <? count_id id group) eqn:E.
    + specialize (IH group (count_id id group) (Some id) eq_refl).
      destruct (pick_id t group (count_id id group) (Some id)) as [w|].
      * destruct IH as [H1 H2]. split; [|lia]. intros k [<-|Hk]; [assumption|apply H1; assumption].
      * destruct IH as [H _]. discriminate H.
    + specialize (IH group mx cur Hinv).
      destruct (pick_id t group mx cur) as [w|].
      * destruct IH as [H1 H2]. split; [|assumption]. intros k [<-|Hk]; [lia|apply H1; assumption].
      * destruct IH as [H1 H2]. split; [assumption|]. intros k [<-|Hk]; [subst cur; lia|apply H2; assumption].
Qed.

(* ------------------------------------------------------------------ main theorem *)
Lemma filter_filter : forall (A : Type) (p q : A -> bool) l, filter q (filter p l) = filter (fun x => p x && q x) l.
Proof.
  induction l; [reflexivity|]. cbn [filter]. destruct (p a); cbn [filter andb]; [destruct (q a); rewrite IHl; reflexivity|assumption].
Qed.

Lemma filter_ext_in' : forall (A : Type) (p q : A -> bool) l, (forall x, In x l -> p x = q x) -> filter p l = filter q l.
Proof.
  induction l; intros H; [reflexivity|]. cbn [filter]. rewrite (H a (or_introl eq_refl)), IHl; [reflexivity|].
  intros x Hx. apply H. right; assumption.
Qed.

Lemma get_best_unfold : forall order r infos, infos <> [] ->
  get_best order r infos =
  match most_frequent order (get_largest height (get_largest mhp infos)) with
  | [] => Panic
  | sel => match nth_error sel r with Some x => Ok x | None => Panic end
  end.
Proof.
  intros order r [|i0 it] H; [congruence|]. unfold get_best, get_best_gen. cbv zeta.
  destruct (most_frequent order _); reflexivity.
Qed.

Section Main.
  Variables (infos : list ni) (order : list N).
  Local Notation g1 := (get_largest mhp infos).
  Local Notation g2 := (get_largest height (get_largest mhp infos)).
  Hypothesis Hne : infos <> [].
  Hypothesis Hadm : admissible order infos.

  Lemma g2_nonempty : g2 <> [].
  Proof. apply get_largest_nonempty. apply get_largest_nonempty. exact Hne. Qed.

  Lemma order_covers : forall v, In v g2 -> In (bid v) order.
  Proof.
    intros v Hv. apply Permutation_in with (l := freq_keys g2); [symmetry; exact Hadm|].
    apply keys_of_complete; assumption.
  Qed.

  Lemma winner : exists w, pick_id order g2 0 None = Some w /\
      (forall id, count_id id g2 <= count_id w g2) /\ 0 < count_id w g2.
  Proof.
    pose proof (pick_id_spec order g2 0 None eq_refl) as H.
    destruct g2 as [|v0 t] eqn:Eg; [exfalso; apply g2_nonempty; assumption|].
    assert (Hv0 : In (bid v0) order) by (apply order_covers; rewrite Eg; left; reflexivity).
    assert (Hpos : 0 < count_id (bid v0) (v0 :: t)) by (apply count_id_pos with (v := v0); [left; reflexivity|reflexivity]).
    destruct (pick_id order (v0 :: t) 0 None) as [w|].
    - destruct H as [H1 _]. exists w. split; [reflexivity|]. pose proof (H1 _ Hv0). split; [|lia].
      intros id. destruct (In_dec N.eq_dec id order) as [Hin|Hnin]; [apply H1; assumption|].
      rewrite (count_id_zero id (v0 :: t)); [lia|].
      intros v Hv E. apply Hnin. rewrite <- E. apply order_covers. rewrite Eg. assumption.
    - destruct H as [_ H2]. specialize (H2 _ Hv0). lia.
  Qed.

  Lemma g2_is_top_group : forall x, In x g2 -> g2 = top_group infos x.
  Proof.
    intros x Hx. rewrite !get_largest_filter in *.
    apply filter_In in Hx. destruct Hx as [Hx1 E2]. apply filter_In in Hx1. destruct Hx1 as [_ E1].
    apply N.eqb_eq in E1, E2. rewrite filter_filter. unfold top_group. apply filter_ext_in'. intros p _.
    rewrite <- get_largest_filter in *. rewrite E1, E2. reflexivity.
  Qed.

  Lemma get_best_spec_ok : forall r x, get_best order r infos = Ok x -> best_spec infos x.
  Proof.
    intros r x H. rewrite (get_best_unfold _ _ _ Hne) in H. unfold most_frequent in H.
    destruct winner as [w [Hw [Hmax Hpos]]]. rewrite Hw in H. cbn [select_id] in H.
    destruct (filter (fun v => bid v =? w) g2) as [|s0 st] eqn:Es; [discriminate|]. rewrite <- Es in H.
    destruct (nth_error (filter (fun v => bid v =? w) g2) r) as [y|] eqn:En; [|discriminate].
    injection H as ->. apply nth_error_In in En. apply filter_In in En. destruct En as [Hx2 Ew]. apply N.eqb_eq in Ew.
    pose proof Hx2 as Hx2'. apply In_get_largest in Hx2'. destruct Hx2' as [Hx1 Hh].
    pose proof Hx1 as Hx1'. apply In_get_largest in Hx1'. destruct Hx1' as [Hx0 Hm].
    split; [assumption|]. split; [assumption|]. split.
    - intros p Hp Ep. apply Hh. apply In_get_largest. split; [assumption|]. intros q Hq. rewrite Ep. apply Hm; assumption.
    - intros id. rewrite <- (g2_is_top_group x Hx2). rewrite Ew. apply Hmax.
  Qed.

  Lemma get_best_no_panic_at_0 : get_best order 0 infos <> Panic.
  Proof.
    rewrite (get_best_unfold _ _ _ Hne).
    unfold most_frequent. destruct winner as [w [Hw [_ Hpos]]]. rewrite Hw. cbn [select_id].
    destruct (filter (fun v => bid v =? w) g2) as [|s0 st] eqn:Es.
    - exfalso. unfold count_id in Hpos. rewrite Es in Hpos. cbn in Hpos. lia.
    - cbn. discriminate.
  Qed.

  Lemma get_best_in_valid_b : forall r x, get_best order r infos = Ok x -> valid_result_b infos x = true.
  Proof.
    intros r x H. rewrite (get_best_unfold _ _ _ Hne) in H.
    assert (Hv : valid_result_b infos x = (let g2 := get_largest height (get_largest mhp infos) in let ks := freq_keys g2 in
      existsb (fun id => forallb (fun k => count_id k g2 <=? count_id id g2) ks && existsb (ni_eqb x) (select_id (Some id) g2)) ks)).
    { unfold valid_result_b. destruct infos; [congruence|reflexivity]. }
    rewrite Hv. cbv zeta. clear Hv.
    unfold most_frequent in H. destruct winner as [w [Hw [Hmax Hpos]]]. rewrite Hw in H. cbn [select_id] in H.
    destruct (filter (fun v => bid v =? w) g2) as [|s0 st] eqn:Es; [discriminate|]. rewrite <- Es in H.
    destruct (nth_error (filter (fun v => bid v =? w) g2) r) as [y|] eqn:En; [|discriminate].
    injection H as ->. apply nth_error_In in En. pose proof En as En'. apply filter_In in En'. destruct En' as [Hx2 Ew]. apply N.eqb_eq in Ew.
    apply existsb_exists. exists w. split; [rewrite <- Ew; apply keys_of_complete; assumption|].
    apply andb_true_iff. split.
    - apply forallb_forall. intros k _. specialize (Hmax k). lia.
    - cbn [select_id]. apply existsb_exists. exists x. split; [assumption|].
      unfold ni_eqb. rewrite !N.eqb_refl. reflexivity.
  Qed.
End Main.

Lemma best_peer_spec : forall infos x, valid_result infos (Ok x) -> best_spec infos x.
Proof.
  intros infos x (order & r & Hadm & H & _).
  assert (Hne : infos <> []) by (intro; subst; discriminate).
  eapply get_best_spec_ok; eassumption.
Qed.

Lemma best_peer_total : forall infos, infos <> [] -> forall order, admissible order infos ->
  exists x, get_best order 0 infos = Ok x.
Proof.
  intros infos Hne order Hadm. pose proof (get_best_no_panic_at_0 infos order Hne Hadm) as Hp.
  destruct (get_best order 0 infos) as [| |x] eqn:E; [|congruence|exists x; reflexivity].
  unfold get_best, get_best_gen in E. destruct infos; [congruence|].
  destruct (most_frequent order _); [discriminate|]. destruct (nth_error _ 0); discriminate.
Qed.

Lemma valid_result_in_b : forall infos x, valid_result infos (Ok x) -> valid_result_b infos x = true.
Proof.
  intros infos x (order & r & Hadm & H & _).
  assert (Hne : infos <> []) by (intro; subst; discriminate).
  eapply get_best_in_valid_b; eassumption.
Qed.

(* empty input: the error, never a panic *)
Lemma empty_is_error : forall order r, get_best order r [] = Err.
Proof. reflexivity. Qed.

(* ------------------------------------------------------------------ boolean oracle reflects the specification *)
Lemma ni_eqb_eq : forall a b, ni_eqb a b = true <-> a = b.
Proof.
  intros [h1 m1 b1 p1] [h2 m2 b2 p2]. unfold ni_eqb; cbn [height mhp bid pid]. split.
  - intros H. assert (h1 = h2 /\ m1 = m2 /\ b1 = b2 /\ p1 = p2) as (-> & -> & -> & ->) by lia. reflexivity.
  - intros H. injection H as -> -> -> ->. rewrite !N.eqb_refl. reflexivity.
Qed.

Lemma best_spec_b_iff : forall infos x, best_spec_b infos x = true <-> best_spec infos x.
Proof.
  intros infos x. unfold best_spec_b, best_spec. rewrite !andb_true_iff, !forallb_forall. split.
  - intros [[[H1 H2] H3] H4]. apply existsb_exists in H1. destruct H1 as [y [Hy E]]. apply ni_eqb_eq in E. subst y.
    split; [assumption|]. split; [intros p Hp; specialize (H2 p Hp); lia|]. split.
    + intros p Hp Ep. specialize (H3 p Hp). lia.
    + intros id. destruct (In_dec N.eq_dec id (map bid (top_group infos x))) as [Hin|Hnin].
      * apply in_map_iff in Hin. destruct Hin as [p [Ep Hp]]. subst id.
        unfold top_group in Hp. apply filter_In in Hp. destruct Hp as [Hp _]. specialize (H4 p Hp). lia.
      * rewrite count_id_zero; [lia|]. intros v Hv E. apply Hnin. apply in_map_iff. exists v. split; assumption.
  - intros (H1 & H2 & H3 & H4). repeat split.
    + apply existsb_exists. exists x. split; [assumption|apply ni_eqb_eq; reflexivity].
    + intros p Hp. specialize (H2 p Hp). lia.
    + intros p Hp. specialize (H3 p Hp). lia.
    + intros p Hp. specialize (H4 (bid p)). lia.
Qed.

(* ------------------------------------------------------------------ the original code is refuted *)
Definition w_infos : list ni :=
  [ Build_ni 10 5 1 0; Build_ni 10 5 1 1; Build_ni 10 5 1 2; Build_ni 10 5 2 3 ].

Lemma best_peer_spec_orig_refuted :
  exists infos x, valid_result_orig infos (Ok x) /\ ~ best_spec infos x.
Proof.
  exists w_infos, (Build_ni 10 5 2 3). split.
  - exists [1; 2], 0%nat. split; [vm_compute; apply Permutation_refl|]. split; [vm_compute; reflexivity|discriminate].
  - intros H. apply best_spec_b_iff in H. vm_compute in H. discriminate H.
Qed.
