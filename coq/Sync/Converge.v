(* Model of the two sync state machines (pkg/consensus/sync/fast_sync.go, block_sync.go, download.go) over
   abstract chains, with the peer's answers as inputs.

   A chain is the list of its block IDs, index = height (genesis first).  Block processing
   (Executer.processValidated) is the oracle [valid c b]: block b is accepted on top of chain c.  Block deletion
   (Executer.deleteBlock -> Chain.RemoveBlock(saveTemp)) removes the tip and, with saveTemp, stores it in the
   temp table KEYED BY HEIGHT (dbPrefixTemp ++ height); it refuses heights at or below the finalized height.
   Re-applying a temp block (processor with removeTemp) removes its temp entry.
   The peer is an input: the ID it answers to getHighestCommonBlock, the blocks the downloader delivered that
   passed the stateless Validate, and how the stream ended (target reached / request error / a block failing
   Validate).  An honest peer is the handler model of Sync.Handlers.  The correspondence harness runs the real
   Syncer of one node against a scripted peer over loopback libp2p and compares with these functions. *)
From Coq Require Import List NArith Bool Arith.
Import ListNotations.

Definition id := N.

Record node := {
  chain : list id;            (* own chain, index = height *)
  temp : list (nat * id);     (* temp blocks by height, newest binding first *)
  finalized : nat;            (* finalized height *)
  banned : bool               (* the sync peer has been banned *)
}.

Inductive ending := EndOk | EndErr | EndInvalid.
Inductive outcome := Synced | Aborted | Failed.

Section Sync.
  Variable valid : list id -> id -> bool.
  (* finalized height the BFT rules yield for a chain (precommits implied by its headers); the node's STORED finalized
     height is the running maximum: it is raised while blocks are applied and never lowered when blocks are deleted.
     Executer.deleteBlock re-reads it on every call. *)
  Variable finality : list id -> nat.

  (* stored finalized height after applying (the accepted prefix of) [bs] on top of [c], starting from [f] *)
  Fixpoint fin_walk (f : nat) (c : list id) (bs : list id) : nat :=
    match bs with
    | [] => f
    | b :: r => if valid c b then fin_walk (Nat.max f (finality (c ++ [b]))) (c ++ [b]) r else f
    end.

  (* processor: blocks in order; stops at the first rejected block *)
  Fixpoint apply_all (c : list id) (bs : list id) : list id * bool :=
    match bs with
    | [] => (c, true)
    | b :: r => if valid c b then apply_all (c ++ [b]) r else (c, false)
    end.

  Fixpoint lookup (h : nat) (t : list (nat * id)) : option id :=
    match t with [] => None | (k, v) :: r => if Nat.eqb k h then Some v else lookup h r end.

  Definition unbind (h : nat) (t : list (nat * id)) : list (nat * id) :=
    filter (fun kv => negb (Nat.eqb (fst kv) h)) t.

  (* blocks saved while deleting: heights h, h+1, ... each bound to the deleted ID *)
  Fixpoint save_from (h : nat) (bs : list id) (t : list (nat * id)) : list (nat * id) :=
    match bs with [] => t | b :: r => save_from (S h) r ((h, b) :: t) end.

  (* deleteTillCommonBlock(common at height hc) with the reverter's saveTemp flag.  The reverter refuses heights
     at or below the finalized one: the loop then stops with an error, the blocks above the finalized height
     being already deleted.  Result: node and "no error" *)
  Definition delete_till (n : node) (hc : nat) (save : bool) : node * bool :=
    let stop := Nat.max hc (finalized n) in
    ({| chain := firstn (S stop) (chain n);
        temp := if save then save_from (S stop) (skipn (S stop) (chain n)) (temp n) else temp n;
        finalized := finalized n; banned := banned n |},
     finalized n <=? hc).

  (* restoreBlocks: GetTempBlocks sorted by height ascending, each re-applied with removeTemp; the temp table
     holds consecutive heights from hc+1 upwards (it is cleared at the end of every successful sync) *)
  Fixpoint restore_apply (c : list id) (t : list (nat * id)) (h : nat) (fuel : nat) : list id * list (nat * id) * bool :=
    match fuel with
    | O => (c, t, true)
    | S k => match lookup h t with
             | None => (c, t, true)
             | Some b => if valid c b then restore_apply (c ++ [b]) (unbind h t) (S h) k else (c, t, false)
             end
    end.

  Fixpoint index_of (x : id) (l : list id) : option nat :=
    match l with [] => None | a :: r => if N.eqb a x then Some O else option_map S (index_of x r) end.

  Definition ban (n : node) : node :=
    {| chain := chain n; temp := temp n; finalized := finalized n; banned := true |}.
  Definition clear_temp (n : node) : node :=
    {| chain := chain n; temp := []; finalized := finalized n; banned := banned n |}.
  Definition with_chain (n : node) (c : list id) : node :=
    {| chain := c; temp := temp n; finalized := finalized n; banned := banned n |}.
  Definition with_fin (n : node) (f : nat) : node :=
    {| chain := chain n; temp := temp n; finalized := f; banned := banned n |}.
  Definition with_chain_temp (n : node) (c : list id) (t : list (nat * id)) : node :=
    {| chain := c; temp := t; finalized := finalized n; banned := banned n |}.

  (* `ctx.Block.Header.Height - commonBlockHeader.Height > twoRounds` in uint32: when the peer names a common block ABOVE
     the offered block's height the subtraction wraps and the sync is abandoned *)
  Definition far32 (th hc r2 : nat) : bool :=
    (N.of_nat r2 <? (N.of_nat th + 4294967296 - N.of_nat hc) mod 4294967296)%N.

  (* a temp block at or below the common block's height: re-applying it on top of the common block is rejected by
     the processor (height not consecutive), whatever the block *)
  Definition stale (t : list (nat * id)) (hc : nat) : bool := existsb (fun kv => fst kv <=? hc) t.

  (* fastSyncer.Sync.  [common]: the peer's getHighestCommonBlock answer; [blocks],[e]: what the downloader delivered
     and how the stream ended; [target_height]: height of the received block that triggered the sync;
     [rounds2]: 2 * number of validators.
     [restore_saves]: the saveTemp flag with which restoreBlocks deletes (true originally, false in the repaired code);
     [clear_stale]: ClearTempBlocks before the deletions (absent originally, present in the repaired code);
     [ban_always]: the peer is banned (and the temp blocks dropped) also when restoreBlocks itself fails — which happens
     when the valid blocks applied before the invalid one FINALIZED a height above the common block (originally: error
     returned, no ban, own blocks left in the temp table) *)
  Definition fast_sync (restore_saves clear_stale ban_always : bool) (n : node) (common : option id) (blocks : list id) (e : ending)
             (target_height rounds2 : nat) : node * outcome :=
    match common with
    | None => (ban n, Failed)                                   (* errCommonBlockNotFound: ban *)
    | Some cid =>
        match index_of cid (chain n) with
        | None => (n, Failed)                                   (* GetBlockHeader(blockID) fails *)
        | Some hc =>
            if hc <? finalized n then (ban n, Failed)
            else if (rounds2 <? (length (chain n) - 1) - hc) || far32 target_height hc rounds2 then (n, Aborted)
            else
              match e with
              | EndErr => (n, Failed)                           (* download error: nothing touched *)
              | EndInvalid => (ban n, Failed)                   (* a block fails Validate: ban, nothing touched *)
              | EndOk =>
                  let n0 := if clear_stale then clear_temp n else n in
                  let '(n1, ok1) := delete_till n0 hc true in
                  if negb ok1 then (n1, Failed) else
                  let '(c2, ok) := apply_all (chain n1) blocks in
                  let n2 := with_fin (with_chain n1 c2) (fin_walk (finalized n1) (chain n1) blocks) in
                  if ok then (clear_temp n2, Synced)
                  else
                    (* restoreBlocks: delete the applied blocks again, then re-apply ALL temp blocks by height *)
                    let '(n3, ok3) := delete_till n2 hc restore_saves in
                    if negb ok3 then ((if ban_always then ban (clear_temp n3) else n3), Failed) else
                    if stale (temp n3) hc then ((if ban_always then ban (clear_temp n3) else n3), Failed) else
                    let '(c4, t4, ok') := restore_apply (chain n3) (temp n3) (S hc) (length (temp n3)) in
                    if ok' then (ban (with_chain_temp n3 c4 t4), Failed)
                    else ((if ban_always then ban (clear_temp (with_chain_temp n3 c4 t4)) else with_chain_temp n3 c4 t4), Failed)
              end
        end
    end.

  (* blockSyncer.Sync after the best peer and its last block are known: the common block comes from the peer's
     answer to the IDs offered, then delete, then stream and apply; nothing is restored on failure *)
  Definition block_sync (n : node) (common : option id) (blocks : list id) (e : ending) : node * outcome :=
    match common with
    | None => (n, Failed)
    | Some cid =>
        match index_of cid (chain n) with
        | None => (n, Failed)
        | Some hc =>
            let '(n1, ok1) := delete_till n hc true in
            if negb ok1 then (n1, Failed) else
            let '(c2, ok) := apply_all (chain n1) blocks in
            let n2 := with_fin (with_chain n1 c2) (fin_walk (finalized n1) (chain n1) blocks) in
            if ok then
              match e with
              | EndOk => (clear_temp n2, Synced)
              | EndErr => (n2, Failed)
              | EndInvalid => (ban n2, Failed)
              end
            else (n2, Failed)
        end
    end.

  (* every block of [bs] is accepted in turn on top of [c] *)
  Fixpoint all_valid (c : list id) (bs : list id) : Prop :=
    match bs with [] => True | b :: r => valid c b = true /\ all_valid (c ++ [b]) r end.
End Sync.

(* ---------------------------------------------------------------- Syncer.Sync: which mechanism *)
From Coq Require Import ZArith.
Inductive method := MFast | MBlock | MNone.

(* shouldFastSync: the absolute height distance (computed in float64, exact for uint32) between the received block and
   the own tip is at most two rounds and the block's generator is a current validator; otherwise shouldSync: the
   current slot is more than three rounds past the slot of the finalized block; otherwise nothing is done *)
Definition abs_diff (a b : N) : N := if (a <=? b)%N then (b - a)%N else (a - b)%N.

Definition choose_sync (own_h block_h n : N) (gen_is_validator : bool) (slot_gap : Z) : method :=
  if (abs_diff own_h block_h <=? 2 * n)%N && gen_is_validator then MFast
  else if (3 * Z.of_N n <? slot_gap)%Z then MBlock else MNone.

(* the distance computed as the wrapping uint32 subtraction block - own instead *)
Definition choose_sync_wrap (own_h block_h n : N) (gen_is_validator : bool) (slot_gap : Z) : method :=
  if ((block_h + 4294967296 - own_h) mod 4294967296 <=? 2 * n)%N && gen_is_validator then MFast
  else if (3 * Z.of_N n <? slot_gap)%Z then MBlock else MNone.
