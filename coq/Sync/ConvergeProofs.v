From Coq Require Import List NArith Bool Arith Lia.
From LE Require Import Sync.Converge.
Import ListNotations.

Section Proofs.
  Variable valid : list id -> id -> bool.
  Variable finality : list id -> nat.

  Lemma fin_walk_quiet : forall bs f c, (forall c', finality c' <= f) -> fin_walk valid finality f c bs = f.
  Proof.
    induction bs as [|b r IH]; intros f c H; cbn [fin_walk]; [reflexivity|]. destruct (valid c b); [|reflexivity].
    rewrite Nat.max_l by apply H. apply IH. exact H.
  Qed.

  Lemma apply_all_valid : forall bs c, all_valid valid c bs -> apply_all valid c bs = (c ++ bs, true).
  Proof.
    induction bs as [|b r IH]; intros c H; cbn [apply_all]; [rewrite app_nil_r; reflexivity|].
    destruct H as [Hv Hr]. rewrite Hv, (IH _ Hr), <- app_assoc. reflexivity.
  Qed.

  Lemma apply_all_fails : forall good c bad rest, all_valid valid c good -> valid (c ++ good) bad = false ->
    apply_all valid c (good ++ bad :: rest) = (c ++ good, false).
  Proof.
    induction good as [|b r IH]; intros c bad rest H Hbad; cbn [app apply_all].
    - rewrite app_nil_r in *. rewrite Hbad. reflexivity.
    - destruct H as [Hv Hr]. rewrite Hv. rewrite (IH (c ++ [b]) bad rest Hr).
      + rewrite <- app_assoc. reflexivity.
      + rewrite <- app_assoc. exact Hbad.
  Qed.

  Lemma apply_all_extends : forall bs c, exists ext, fst (apply_all valid c bs) = c ++ ext.
  Proof.
    induction bs as [|b r IH]; intros c; cbn [apply_all]; [exists []; rewrite app_nil_r; reflexivity|].
    destruct (valid c b); [|exists []; rewrite app_nil_r; reflexivity].
    destruct (IH (c ++ [b])) as [ext He]. exists (b :: ext). rewrite He, <- app_assoc. reflexivity.
  Qed.

  Lemma index_of_mid : forall pre cid rest, ~ In cid pre -> index_of cid (pre ++ cid :: rest) = Some (length pre).
  Proof.
    induction pre as [|a r IH]; intros cid rest Hn; cbn [app index_of length].
    - rewrite N.eqb_refl. reflexivity.
    - destruct (N.eqb a cid) eqn:E; [apply N.eqb_eq in E; subst; exfalso; apply Hn; left; reflexivity|].
      rewrite IH; [reflexivity|]. intros H. apply Hn. right. exact H.
  Qed.

  Lemma firstn_mid : forall (pre : list id) cid rest, firstn (S (length pre)) (pre ++ cid :: rest) = pre ++ [cid].
  Proof. induction pre; intros; cbn; [reflexivity|]. f_equal. apply IHpre. Qed.

  Lemma skipn_mid : forall (pre : list id) cid rest, skipn (S (length pre)) (pre ++ cid :: rest) = rest.
  Proof. induction pre; intros; cbn; [reflexivity|]. apply IHpre. Qed.

  Lemma lookup_save_from : forall bs h t k,
    lookup k (save_from h bs t) =
    if (h <=? k) && (k <? h + length bs) then nth_error bs (k - h) else lookup k t.
  Proof.
    induction bs as [|b r IH]; intros h t k; cbn [save_from length].
    - replace (h + 0) with h by lia. destruct (h <=? k) eqn:E1; destruct (k <? h) eqn:E2; cbn; try reflexivity.
      apply Nat.leb_le in E1. apply Nat.ltb_lt in E2. lia.
    - rewrite IH. cbn [lookup].
      destruct (S h <=? k) eqn:E1; destruct (k <? S h + length r) eqn:E2; cbn [andb].
      + apply Nat.leb_le in E1. apply Nat.ltb_lt in E2.
        assert (E3 : (h <=? k) = true) by (apply Nat.leb_le; lia). assert (E4 : (k <? h + S (length r)) = true) by (apply Nat.ltb_lt; lia).
        rewrite E3, E4. cbn [andb]. replace (k - h) with (S (k - S h)) by lia. reflexivity.
      + apply Nat.leb_le in E1. apply Nat.ltb_ge in E2.
        assert (E4 : (k <? h + S (length r)) = false) by (apply Nat.ltb_ge; lia). rewrite E4, andb_false_r.
        assert (E5 : Nat.eqb h k = false) by (apply Nat.eqb_neq; lia). rewrite E5. reflexivity.
      + apply Nat.leb_gt in E1. destruct (Nat.eqb h k) eqn:E5.
        * apply Nat.eqb_eq in E5. subst k. rewrite Nat.leb_refl. assert (E4 : (h <? h + S (length r)) = true) by (apply Nat.ltb_lt; lia).
          rewrite E4. cbn [andb]. rewrite Nat.sub_diag. reflexivity.
        * apply Nat.eqb_neq in E5. assert (E3 : (h <=? k) = false) by (apply Nat.leb_gt; lia). rewrite E3. reflexivity.
      + apply Nat.leb_gt in E1. destruct (Nat.eqb h k) eqn:E5.
        * apply Nat.eqb_eq in E5. subst k. apply Nat.ltb_ge in E2. lia.
        * apply Nat.eqb_neq in E5. assert (E3 : (h <=? k) = false) by (apply Nat.leb_gt; lia). rewrite E3. reflexivity.
  Qed.

  Lemma lookup_unbind : forall t h k, lookup k (unbind h t) = if Nat.eqb k h then None else lookup k t.
  Proof.
    induction t as [|[a v] r IH]; intros h k; cbn [unbind filter lookup fst].
    - destruct (Nat.eqb k h); reflexivity.
    - destruct (Nat.eqb a h) eqn:E1; cbn [negb].
      + fold (unbind h r). rewrite IH. apply Nat.eqb_eq in E1. subst a.
        destruct (Nat.eqb k h) eqn:E2; [reflexivity|]. rewrite Nat.eqb_sym, E2. reflexivity.
      + cbn [lookup]. fold (unbind h r). rewrite IH. destruct (Nat.eqb a k) eqn:E3; [|reflexivity].
        apply Nat.eqb_eq in E3. subst a. rewrite E1. reflexivity.
  Qed.

  Lemma restore_apply_all : forall bs c t h, (forall i, i < length bs -> lookup (h + i) t = nth_error bs i) ->
    all_valid valid c bs -> exists t', restore_apply valid c t h (length bs) = (c ++ bs, t', true).
  Proof.
    induction bs as [|b r IH]; intros c t h H Hv; cbn [length restore_apply].
    - exists t. rewrite app_nil_r. reflexivity.
    - pose proof (H 0 ltac:(cbn; lia)) as H0. rewrite Nat.add_0_r in H0. cbn in H0. rewrite H0.
      destruct Hv as [Hv Hr]. rewrite Hv.
      destruct (IH (c ++ [b]) (unbind h t) (S h)) as [t' Ht'].
      + intros i Hi. rewrite lookup_unbind. assert (E : Nat.eqb (S h + i) h = false) by (apply Nat.eqb_neq; lia). rewrite E.
        replace (S h + i) with (h + S i) by lia. rewrite (H (S i)) by (cbn; lia). reflexivity.
      + exact Hr.
      + exists t'. rewrite Ht', <- app_assoc. reflexivity.
  Qed.

  Lemma restore_saved : forall bs c h, all_valid valid c bs ->
    exists t', restore_apply valid c (save_from h bs []) h (length bs) = (c ++ bs, t', true).
  Proof.
    intros bs c h Hv. apply restore_apply_all; [|exact Hv]. intros i Hi. rewrite lookup_save_from.
    assert (E1 : (h <=? h + i) = true) by (apply Nat.leb_le; lia).
    assert (E2 : (h + i <? h + length bs) = true) by (apply Nat.ltb_lt; lia).
    rewrite E1, E2. cbn [andb]. replace (h + i - h) with i by lia. reflexivity.
  Qed.

  Lemma save_from_length : forall bs h t, length (save_from h bs t) = length bs + length t.
  Proof. induction bs; intros; cbn [save_from length]; [reflexivity|]. rewrite IHbs. cbn. lia. Qed.

  Lemma far32_near : forall th hc r2, hc <= th -> th - hc <= r2 -> (N.of_nat th < 4294967296)%N -> far32 th hc r2 = false.
  Proof.
    intros th hc r2 Hle Hd Hth. unfold far32.
    replace (N.of_nat th + 4294967296 - N.of_nat hc)%N with (N.of_nat (th - hc) + 1 * 4294967296)%N by lia.
    rewrite N.mod_add by discriminate. rewrite N.mod_small by lia. apply N.ltb_ge. lia.
  Qed.

  (* a common block above the offered block's height: the uint32 difference wraps and the fast sync is abandoned *)
  Lemma far32_above : forall th hc r2, th < hc -> (N.of_nat hc < 4294967296)%N -> (N.of_nat r2 + N.of_nat (hc - th) < 4294967296)%N ->
    far32 th hc r2 = true.
  Proof.
    intros th hc r2 Hlt Hh Hr. unfold far32.
    rewrite N.mod_small by lia. apply N.ltb_lt. lia.
  Qed.

  (* ---------------------------------------------------------------- convergence with an honest peer *)
  Ltac pre_checks Hc Hn :=
    rewrite Hc, (index_of_mid _ _ _ Hn).

  Lemma quiet_with_fin : forall n1 c2 bs, (forall c', finality c' <= finalized n1) ->
    with_fin (with_chain n1 c2) (fin_walk valid finality (finalized n1) (chain n1) bs) = with_chain n1 c2.
  Proof. intros n1 c2 bs H. rewrite (fin_walk_quiet _ _ _ H). reflexivity. Qed.

  Lemma delete_till_mid : forall n pre cid own save, chain n = pre ++ cid :: own -> finalized n <= length pre ->
    delete_till n (length pre) save =
    ({| chain := pre ++ [cid]; temp := if save then save_from (S (length pre)) own (temp n) else temp n;
        finalized := finalized n; banned := banned n |}, true).
  Proof.
    intros n pre cid own save Hc Hf. unfold delete_till. rewrite Nat.max_l by lia. rewrite Hc, firstn_mid, skipn_mid.
    assert (E : (finalized n <=? length pre) = true) by (apply Nat.leb_le; lia). rewrite E. reflexivity.
  Qed.

  (* own chain = pre ++ cid :: own, peer's chain = pre ++ cid :: blocks; the peer answers cid and delivers blocks *)
  Lemma honest_peer_converges_fast : forall rs cs ba n pre cid own blocks th r2,
    chain n = pre ++ cid :: own -> ~ In cid pre ->
    finalized n <= length pre -> (forall c', finality c' <= finalized n) -> length own <= r2 -> length pre <= th -> th - length pre <= r2 -> (N.of_nat th < 4294967296)%N ->
    all_valid valid (pre ++ [cid]) blocks ->
    fast_sync valid finality rs cs ba n (Some cid) blocks EndOk th r2 =
    ({| chain := pre ++ cid :: blocks; temp := []; finalized := finalized n; banned := banned n |}, Synced).
  Proof.
    intros rs cs ba n pre cid own blocks th r2 Hc Hn Hf Hq Ho Hle Ht Hth Hv. unfold fast_sync. assert (Hi : index_of cid (chain n) = Some (length pre)) by (rewrite Hc; apply index_of_mid; exact Hn).
    assert (Hl : length (chain n) = length pre + S (length own)) by (rewrite Hc, app_length; reflexivity).
    rewrite Hi, Hl.
    assert (E1 : (length pre <? finalized n) = false) by (apply Nat.ltb_ge; lia). rewrite E1.
    assert (E2 : (r2 <? length pre + S (length own) - 1 - length pre) = false) by (apply Nat.ltb_ge; lia).
    assert (E3 : far32 th (length pre) r2 = false) by (apply far32_near; assumption). rewrite E2, E3. cbn [orb].
    set (n0 := if cs then clear_temp n else n).
    assert (Hc0 : chain n0 = pre ++ cid :: own) by (subst n0; destruct cs; exact Hc).
    assert (Hf0 : finalized n0 <= length pre) by (subst n0; destruct cs; exact Hf).
    rewrite (delete_till_mid n0 pre cid own true Hc0 Hf0). cbn [negb chain]. rewrite (apply_all_valid _ _ Hv). rewrite quiet_with_fin by (cbn [finalized]; try (subst n0; destruct cs); exact Hq).
    unfold clear_temp, with_chain. cbn [chain finalized banned]. rewrite <- app_assoc.
    subst n0. destruct cs; reflexivity.
  Qed.

  Lemma honest_peer_converges_block : forall n pre cid own blocks,
    chain n = pre ++ cid :: own -> ~ In cid pre -> finalized n <= length pre -> (forall c', finality c' <= finalized n) ->
    all_valid valid (pre ++ [cid]) blocks ->
    block_sync valid finality n (Some cid) blocks EndOk =
    ({| chain := pre ++ cid :: blocks; temp := []; finalized := finalized n; banned := banned n |}, Synced).
  Proof.
    intros n pre cid own blocks Hc Hn Hf Hq Hv. unfold block_sync.
    assert (Hi : index_of cid (chain n) = Some (length pre)) by (rewrite Hc; apply index_of_mid; exact Hn). rewrite Hi.
    rewrite (delete_till_mid n pre cid own true Hc Hf). cbn [negb chain]. rewrite (apply_all_valid _ _ Hv). rewrite quiet_with_fin by (cbn [finalized]; try (subst n0; destruct cs); exact Hq).
    unfold clear_temp, with_chain. cbn [chain finalized banned]. rewrite <- app_assoc. reflexivity.
  Qed.

  (* block sync never restores: after an invalid block (or a broken stream) the node is left on the common block plus
     the blocks applied so far, its own blocks only in the temp table, the peer not banned *)
  Lemma block_sync_failure_shape : forall n pre cid own good bad rest e,
    chain n = pre ++ cid :: own -> ~ In cid pre -> finalized n <= length pre -> (forall c', finality c' <= finalized n) ->
    all_valid valid (pre ++ [cid]) good -> valid ((pre ++ [cid]) ++ good) bad = false ->
    block_sync valid finality n (Some cid) (good ++ bad :: rest) e =
    ({| chain := pre ++ cid :: good; temp := save_from (S (length pre)) own (temp n); finalized := finalized n; banned := banned n |}, Failed).
  Proof.
    intros n pre cid own good bad rest e Hc Hn Hf Hq Hg Hbad. unfold block_sync.
    assert (Hi : index_of cid (chain n) = Some (length pre)) by (rewrite Hc; apply index_of_mid; exact Hn). rewrite Hi.
    rewrite (delete_till_mid n pre cid own true Hc Hf). cbn [negb chain]. rewrite (apply_all_fails _ _ _ _ Hg Hbad). rewrite quiet_with_fin by (cbn [finalized clear_temp]; exact Hq).
    unfold with_chain. cbn [temp finalized banned]. rewrite <- app_assoc. reflexivity.
  Qed.

  (* ---------------------------------------------------------------- failing fast sync *)
  Lemma stale_save_from : forall bs h t hc, hc < h -> stale t hc = false -> stale (save_from h bs t) hc = false.
  Proof.
    induction bs as [|b r IH]; intros h t hc Hlt Hs; cbn [save_from]; [exact Hs|].
    apply IH; [lia|]. unfold stale. cbn [existsb fst]. fold (stale t hc). rewrite Hs.
    assert (E : (h <=? hc) = false) by (apply Nat.leb_gt; lia). rewrite E. reflexivity.
  Qed.

  (* CURRENT code (restoreBlocks deletes without saving; stale temp blocks cleared first): wherever the first invalid
     block sits and whatever temp blocks earlier syncs left behind, the original chain is back and the peer is banned *)
  Lemma failed_fast_sync_restores_and_bans : forall n pre cid own good bad rest th r2,
    chain n = pre ++ cid :: own -> ~ In cid pre ->
    finalized n <= length pre -> (forall c', finality c' <= finalized n) -> length own <= r2 -> length pre <= th -> th - length pre <= r2 -> (N.of_nat th < 4294967296)%N ->
    all_valid valid (pre ++ [cid]) good -> valid ((pre ++ [cid]) ++ good) bad = false ->
    all_valid valid (pre ++ [cid]) own ->
    let '(n', o) := fast_sync valid finality false true true n (Some cid) (good ++ bad :: rest) EndOk th r2 in
    chain n' = chain n /\ banned n' = true /\ o = Failed.
  Proof.
    intros n pre cid own good bad rest th r2 Hc Hn Hf Hq Ho Hle Ht Hth Hg Hbad Hown. unfold fast_sync.
    assert (Hi : index_of cid (chain n) = Some (length pre)) by (rewrite Hc; apply index_of_mid; exact Hn).
    assert (Hl : length (chain n) = length pre + S (length own)) by (rewrite Hc, app_length; reflexivity).
    rewrite Hi, Hl.
    assert (E1 : (length pre <? finalized n) = false) by (apply Nat.ltb_ge; lia). rewrite E1.
    assert (E2 : (r2 <? length pre + S (length own) - 1 - length pre) = false) by (apply Nat.ltb_ge; lia).
    assert (E3 : far32 th (length pre) r2 = false) by (apply far32_near; assumption). rewrite E2, E3. cbn [orb].
    rewrite (delete_till_mid (clear_temp n) pre cid own true Hc Hf). cbn [negb chain clear_temp temp].
    rewrite (apply_all_fails _ _ _ _ Hg Hbad). rewrite quiet_with_fin by (cbn [finalized clear_temp]; exact Hq).
    set (n2 := with_chain _ _).
    assert (Hc2 : chain n2 = pre ++ cid :: good) by (subst n2; cbn [with_chain chain]; rewrite <- app_assoc; reflexivity).
    assert (Hf2 : finalized n2 <= length pre) by (subst n2; cbn; exact Hf).
    rewrite (delete_till_mid n2 pre cid good false Hc2 Hf2). cbn [negb chain temp]. subst n2. cbn [with_chain temp finalized banned].
    rewrite (stale_save_from own (S (length pre)) [] (length pre)) by (try lia; reflexivity).
    rewrite save_from_length. cbn [length]. rewrite Nat.add_0_r.
    destruct (restore_saved own (pre ++ [cid]) (S (length pre)) Hown) as [t' Ht']. rewrite Ht'.
    unfold ban, with_chain_temp. cbn [chain banned]. split; [rewrite Hc, <- app_assoc; reflexivity|]. split; reflexivity.
  Qed.

  (* ORIGINAL code (restoreBlocks deleting with saveTemp = true, no clearing): proved only when the FIRST applied block is
     invalid and no temp block was left behind *)
  Lemma failed_fast_sync_orig_first_block_case : forall n pre cid own bad rest th r2,
    chain n = pre ++ cid :: own -> ~ In cid pre -> temp n = [] ->
    finalized n <= length pre -> (forall c', finality c' <= finalized n) -> length own <= r2 -> length pre <= th -> th - length pre <= r2 -> (N.of_nat th < 4294967296)%N ->
    valid (pre ++ [cid]) bad = false -> all_valid valid (pre ++ [cid]) own ->
    let '(n', o) := fast_sync valid finality true false false n (Some cid) (bad :: rest) EndOk th r2 in
    chain n' = chain n /\ banned n' = true /\ o = Failed.
  Proof.
    intros n pre cid own bad rest th r2 Hc Hn Htmp Hf Hq Ho Hle Ht Hth Hbad Hown. unfold fast_sync.
    assert (Hi : index_of cid (chain n) = Some (length pre)) by (rewrite Hc; apply index_of_mid; exact Hn).
    assert (Hl : length (chain n) = length pre + S (length own)) by (rewrite Hc, app_length; reflexivity).
    rewrite Hi, Hl.
    assert (E1 : (length pre <? finalized n) = false) by (apply Nat.ltb_ge; lia). rewrite E1.
    assert (E2 : (r2 <? length pre + S (length own) - 1 - length pre) = false) by (apply Nat.ltb_ge; lia).
    assert (E3 : far32 th (length pre) r2 = false) by (apply far32_near; assumption). rewrite E2, E3. cbn [orb].
    rewrite (delete_till_mid n pre cid own true Hc Hf). cbn [negb chain]. rewrite Htmp.
    cbn [apply_all]. rewrite Hbad. rewrite quiet_with_fin by (cbn [finalized]; exact Hq).
    set (n2 := with_chain _ _).
    assert (Hc2 : chain n2 = pre ++ cid :: []) by (subst n2; reflexivity).
    assert (Hf2 : finalized n2 <= length pre) by (subst n2; cbn; exact Hf).
    rewrite (delete_till_mid n2 pre cid [] true Hc2 Hf2). cbn [negb chain temp save_from]. subst n2. cbn [with_chain temp finalized banned].
    rewrite (stale_save_from own (S (length pre)) [] (length pre)) by (try lia; reflexivity).
    rewrite save_from_length. cbn [length]. rewrite Nat.add_0_r.
    destruct (restore_saved own (pre ++ [cid]) (S (length pre)) Hown) as [t' Ht']. rewrite Ht'.
    unfold ban, with_chain_temp. cbn [chain banned]. split; [rewrite Hc, <- app_assoc; reflexivity|]. split; reflexivity.
  Qed.

  (* a peer naming a common block ABOVE the height of the block it offered: nothing is touched *)
  Lemma fast_sync_common_above_block_aborts : forall rs cs ba n cid hc blocks e th r2,
    index_of cid (chain n) = Some hc -> finalized n <= hc -> th < hc ->
    (N.of_nat hc < 4294967296)%N -> (N.of_nat r2 + N.of_nat (hc - th) < 4294967296)%N ->
    fast_sync valid finality rs cs ba n (Some cid) blocks e th r2 = (n, Aborted).
  Proof.
    intros rs cs ba n cid hc blocks e th r2 Hi Hf Hlt Hh Hr. unfold fast_sync. rewrite Hi.
    assert (E1 : (hc <? finalized n) = false) by (apply Nat.ltb_ge; lia). rewrite E1.
    rewrite (far32_above th hc r2 Hlt Hh Hr). rewrite orb_true_r. reflexivity.
  Qed.

  (* a peer whose stream breaks or carries a statelessly invalid block costs a fast-syncing node nothing *)
  Lemma fast_sync_bad_stream_no_change : forall rs cs ba n common blocks e th r2, e <> EndOk ->
    chain (fst (fast_sync valid finality rs cs ba n common blocks e th r2)) = chain n /\
    snd (fast_sync valid finality rs cs ba n common blocks e th r2) <> Synced.
  Proof.
    intros rs cs ba n common blocks e th r2 He. unfold fast_sync.
    destruct common as [cid|]; [|cbn; split; [reflexivity|discriminate]].
    destruct (index_of cid (chain n)) as [hc|]; [|cbn; split; [reflexivity|discriminate]].
    destruct (hc <? finalized n); [cbn; split; [reflexivity|discriminate]|].
    destruct (_ || _); [cbn; split; [reflexivity|discriminate]|].
    destruct e; [congruence| |]; cbn; split; try reflexivity; discriminate.
  Qed.
End Proofs.

(* the original code loses the original blocks when some downloaded blocks were applied before the failure:
   deleting them again with saveTemp = true overwrites the temp entries of the same heights *)
Definition w_valid (c : list id) (b : id) : bool :=
  match b with
  | 1%N => match c with [0%N] => true | _ => false end
  | 2%N => match c with [0%N; 1%N] => true | _ => false end
  | 11%N => match c with [0%N] => true | _ => false end
  | _ => false
  end.

Lemma failed_fast_sync_restores_orig_refuted :
  exists valid n cid own blocks th r2,
    chain n = [0%N] ++ own /\ cid = 0%N /\ temp n = [] /\ all_valid valid [0%N] own /\
    let '(n', o) := fast_sync valid (fun _ => 0%nat) true false false n (Some cid) blocks EndOk th r2 in
    chain n' <> chain n /\ banned n' = false.
Proof.
  exists w_valid, {| chain := [0; 1; 2]%N; temp := []; finalized := 0; banned := false |}, 0%N, [1; 2]%N, [11; 12]%N, 2, 4.
  split; [reflexivity|]. split; [reflexivity|]. split; [reflexivity|]. split; [cbn; auto|].
  vm_compute. split; [discriminate|reflexivity].
Qed.

(* with the restore repaired but stale temp blocks not cleared: a temp block left behind by an earlier failed block
   sync makes the restore abort; the own blocks are gone and the peer is not banned *)
Lemma failed_fast_sync_stale_temp_refuted :
  exists valid n cid own blocks th r2,
    chain n = [0%N; 5%N] ++ own /\ cid = 5%N /\ all_valid valid [0%N; 5%N] own /\
    let '(n', o) := fast_sync valid (fun _ => 0%nat) false false false n (Some cid) blocks EndOk th r2 in
    chain n' <> chain n /\ banned n' = false.
Proof.
  exists (fun c b => match b with 6%N => match c with [0%N; 5%N] => true | _ => false end | _ => false end),
         {| chain := [0; 5; 6]%N; temp := [(1, 1%N)]; finalized := 0; banned := false |}, 5%N, [6%N], [12%N], 2, 4.
  split; [reflexivity|]. split; [reflexivity|]. split; [cbn; auto|].
  vm_compute. split; [discriminate|reflexivity].
Qed.

(* ---------------------------------------------------------------- nothing at or below the finalized height is deleted *)
(* finality moves while the downloaded blocks are applied: the peer serves valid blocks that finalize a height above the
   common block, then an invalid one.  restoreBlocks cannot delete the finalized blocks; ORIGINALLY it returned the error
   without banning and left the own blocks in the temp table *)
Definition h1_valid (c : list id) (b : id) : bool :=
  match b with
  | 1%N => match c with [0%N] => true | _ => false end
  | 11%N => match c with [0%N] => true | _ => false end
  | 12%N => match c with [0%N; 11%N] => true | _ => false end
  | _ => false
  end.
Definition h1_finality (c : list id) : nat := match c with [0%N; 11%N; 12%N] => 1 | _ => 0 end.

Lemma failed_fast_sync_finality_moved_refuted :
  exists valid finality n cid own blocks th r2,
    chain n = [0%N] ++ own /\ cid = 0%N /\ temp n = [] /\ all_valid valid [0%N] own /\
    (let '(n', o) := fast_sync valid finality false true false n (Some cid) blocks EndOk th r2 in
     chain n' <> chain n /\ banned n' = false /\ temp n' <> []) /\
    (* with the ban made unconditional the peer is banned and the stale originals are dropped; the original block at the
       now finalized height cannot come back *)
    (let '(n', o) := fast_sync valid finality false true true n (Some cid) blocks EndOk th r2 in
     chain n' = [0%N; 11%N] /\ banned n' = true /\ temp n' = [] /\ finalized n' = 1).
Proof.
  exists h1_valid, h1_finality, {| chain := [0; 1]%N; temp := []; finalized := 0; banned := false |}, 0%N, [1%N], [11; 12; 13]%N, 3, 8.
  split; [reflexivity|]. split; [reflexivity|]. split; [reflexivity|]. split; [cbn; auto|].
  split; vm_compute; repeat split; try reflexivity; discriminate.
Qed.

Section Always.
  Variable valid : list id -> id -> bool.
  Variable finality : list id -> nat.

  (* CURRENT code: whenever a delivered block that passed Validate is rejected by the processor during a fast sync, the peer
     is banned — whether or not the original blocks could be restored *)
  Lemma failed_fast_sync_always_bans : forall rs cs n cid hc blocks th r2,
    index_of cid (chain n) = Some hc -> finalized n <= hc ->
    (r2 <? (length (chain n) - 1) - hc) || far32 th hc r2 = false ->
    snd (apply_all valid (firstn (S hc) (chain n)) blocks) = false ->
    banned (fst (fast_sync valid finality rs cs true n (Some cid) blocks EndOk th r2)) = true.
  Proof.
    intros rs cs n cid hc blocks th r2 Hi Hf Hr Hbad. unfold fast_sync. rewrite Hi.
    assert (E1 : (hc <? finalized n) = false) by (apply Nat.ltb_ge; lia). rewrite E1, Hr.
    set (n0 := if cs then clear_temp n else n).
    assert (Hc0 : chain n0 = chain n) by (subst n0; destruct cs; reflexivity).
    assert (Hf0 : finalized n0 = finalized n) by (subst n0; destruct cs; reflexivity).
    unfold delete_till at 1. rewrite Hf0, Hc0. rewrite Nat.max_l by lia.
    assert (E2 : (finalized n <=? hc) = true) by (apply Nat.leb_le; lia). rewrite E2. cbn [negb chain].
    destruct (apply_all valid (firstn (S hc) (chain n)) blocks) as [c2 ok] eqn:Ea. cbn [snd] in Hbad. subst ok.
    destruct (delete_till _ hc rs) as [n3 ok3]. destruct ok3; cbn [negb]; [|reflexivity].
    destruct (stale (temp n3) hc); [reflexivity|].
    destruct (restore_apply valid (chain n3) (temp n3) (S hc) (length (temp n3))) as [[c4 t4] ok']. destruct ok'; reflexivity.
  Qed.
End Always.


Section Keep.
  Variable valid : list id -> id -> bool.
  Variable finality : list id -> nat.

  (* nothing at or below the finalized height the node had BEFORE the sync is changed, and the stored finalized height
     only grows; deletions stop at the finalized height in force at that moment (which applied blocks may have raised) *)
  Definition keeps (n n' : node) : Prop :=
    firstn (S (finalized n)) (chain n') = firstn (S (finalized n)) (chain n) /\ finalized n <= finalized n'.

  Lemma firstn_prefix_app : forall (c x : list id) f hc, f <= hc -> f < length c ->
    firstn (S f) (firstn (S hc) c ++ x) = firstn (S f) c.
  Proof.
    intros c x f hc Hle Hlt. rewrite firstn_app.
    assert (Hl : S f <= length (firstn (S hc) c)) by (rewrite firstn_length; lia).
    replace (S f - length (firstn (S hc) c)) with 0 by lia. rewrite firstn_O, app_nil_r.
    rewrite firstn_firstn. replace (Nat.min (S f) (S hc)) with (S f) by lia. reflexivity.
  Qed.

  Lemma delete_till_keeps : forall n f0 hc save x, f0 <= finalized n -> f0 < length (chain n) ->
    let n1 := fst (delete_till n hc save) in
    firstn (S f0) (chain n1 ++ x) = firstn (S f0) (chain n) /\ finalized n1 = finalized n /\ f0 < length (chain n1).
  Proof.
    intros n f0 hc save x Hf Hlen. unfold delete_till. cbn [fst chain finalized].
    split; [apply firstn_prefix_app; [lia|assumption]|]. split; [reflexivity|]. rewrite firstn_length. lia.
  Qed.

  Lemma fin_walk_ge : forall bs f c, f <= fin_walk valid finality f c bs.
  Proof.
    induction bs as [|b r IH]; intros f c; cbn [fin_walk]; [lia|]. destruct (valid c b); [|lia].
    specialize (IH (Nat.max f (finality (c ++ [b]))) (c ++ [b])). lia.
  Qed.

  Lemma restore_apply_extends : forall fuel c t h, exists ext, fst (fst (restore_apply valid c t h fuel)) = c ++ ext.
  Proof.
    induction fuel as [|k IH]; intros c t h; cbn [restore_apply]; [exists []; rewrite app_nil_r; reflexivity|].
    destruct (lookup h t) as [b|]; [|exists []; rewrite app_nil_r; reflexivity].
    destruct (valid c b); [|exists []; rewrite app_nil_r; reflexivity].
    destruct (IH (c ++ [b]) (unbind h t) (S h)) as [ext He]. exists (b :: ext). rewrite He, <- app_assoc. reflexivity.
  Qed.

  Lemma fast_sync_keeps_finalized : forall rs cs ba n common blocks e th r2, finalized n < length (chain n) ->
    keeps n (fst (fast_sync valid finality rs cs ba n common blocks e th r2)).
  Proof.
    intros rs cs ba n common blocks e th r2 Hlen. unfold fast_sync, keeps.
    destruct common as [cid|]; [|cbn; auto]. destruct (index_of cid (chain n)) as [hc|]; [|cbn; auto].
    destruct (hc <? finalized n); [cbn; auto|]. destruct (_ || _); [cbn; auto|].
    destruct e; [|cbn; auto|cbn; auto].
    set (f0 := finalized n) in *.
    set (n0 := if cs then clear_temp n else n).
    assert (Hc0 : chain n0 = chain n) by (subst n0; destruct cs; reflexivity).
    assert (Hf0 : finalized n0 = f0) by (subst n0; destruct cs; reflexivity).
    destruct (delete_till n0 hc true) as [n1 ok1] eqn:E1.
    pose proof (delete_till_keeps n0 f0 hc true) as K. rewrite E1 in K. cbn [fst] in K. rewrite Hc0, Hf0 in K.
    destruct ok1; cbn [negb];
      [|destruct (K [] (Nat.le_refl _) Hlen) as (K1 & K2 & _); rewrite app_nil_r in K1; cbn [fst]; split; [exact K1|lia]].
    destruct (apply_all_extends valid blocks (chain n1)) as [ext He].
    destruct (apply_all valid (chain n1) blocks) as [c2 ok] eqn:Ea. cbn [fst] in He. subst c2.
    destruct (K ext (Nat.le_refl _) Hlen) as (K1 & K2 & K3).
    pose proof (fin_walk_ge blocks (finalized n1) (chain n1)) as Hw.
    set (n2 := with_fin (with_chain n1 (chain n1 ++ ext)) (fin_walk valid finality (finalized n1) (chain n1) blocks)) in *.
    assert (Hc2 : chain n2 = chain n1 ++ ext) by reflexivity.
    assert (Hf2 : f0 <= finalized n2) by (subst n2; cbn [with_fin finalized]; lia).
    assert (Hlen2 : f0 < length (chain n2)) by (rewrite Hc2, app_length; lia).
    destruct ok; [cbn [fst clear_temp chain finalized]; rewrite Hc2; split; [exact K1|exact Hf2]|].
    destruct (delete_till n2 hc rs) as [n3 ok3] eqn:E3.
    pose proof (delete_till_keeps n2 f0 hc rs) as J. rewrite E3 in J. cbn [fst] in J.
    assert (Jnil : firstn (S f0) (chain n3) = firstn (S f0) (chain n) /\ f0 <= finalized n3).
    { destruct (J [] Hf2 Hlen2) as (J1 & J2 & _). rewrite app_nil_r, Hc2 in J1. split; [rewrite J1; exact K1|lia]. }
    destruct ok3; cbn [negb].
    2:{ destruct ba; cbn [fst ban clear_temp chain finalized]; exact Jnil. }
    destruct (stale (temp n3) hc).
    { destruct ba; cbn [fst ban clear_temp chain finalized]; exact Jnil. }
    destruct (restore_apply_extends (length (temp n3)) (chain n3) (temp n3) (S hc)) as [ext4 He4].
    destruct (restore_apply valid (chain n3) (temp n3) (S hc) (length (temp n3))) as [[c4 t4] ok4]. cbn [fst] in He4. subst c4.
    destruct (J ext4 Hf2 Hlen2) as (J1 & J2 & _). rewrite Hc2 in J1.
    destruct ok4; [|destruct ba]; cbn [fst ban clear_temp with_chain_temp chain finalized]; (split; [rewrite J1; exact K1|lia]).
  Qed.

  Lemma block_sync_keeps_finalized : forall n common blocks e, finalized n < length (chain n) ->
    keeps n (fst (block_sync valid finality n common blocks e)).
  Proof.
    intros n common blocks e Hlen. unfold block_sync, keeps.
    destruct common as [cid|]; [|cbn; auto]. destruct (index_of cid (chain n)) as [hc|]; [|cbn; auto].
    destruct (delete_till n hc true) as [n1 ok1] eqn:E1.
    pose proof (delete_till_keeps n (finalized n) hc true) as K. rewrite E1 in K. cbn [fst] in K.
    destruct ok1; cbn [negb];
      [|destruct (K [] (Nat.le_refl _) Hlen) as (K1 & K2 & _); rewrite app_nil_r in K1; cbn [fst]; split; [exact K1|lia]].
    destruct (apply_all_extends valid blocks (chain n1)) as [ext He].
    destruct (apply_all valid (chain n1) blocks) as [c2 ok] eqn:Ea. cbn [fst] in He. subst c2.
    destruct (K ext (Nat.le_refl _) Hlen) as (K1 & K2 & _).
    pose proof (fin_walk_ge blocks (finalized n1) (chain n1)) as Hw.
    destruct ok; [destruct e|]; cbn [fst clear_temp ban with_fin with_chain chain finalized]; (split; [exact K1|lia]).
  Qed.
End Keep.

(* ---------------------------------------------------------------- choice of the mechanism *)
From Coq Require Import ZArith.
Lemma choose_sync_symmetric : forall a b n v g, choose_sync a b n v g = choose_sync b a n v g.
Proof.
  intros a b n v g. unfold choose_sync, abs_diff.
  destruct (a <=? b)%N eqn:E1, (b <=? a)%N eqn:E2; try reflexivity.
  - apply N.leb_le in E1, E2. assert (a = b) by lia. subst. reflexivity.
  - apply N.leb_gt in E1, E2. lia.
Qed.

(* a block within two rounds of the own tip from a current validator is always handled by fast sync, whether the
   offered chain is longer or SHORTER than ours *)
Lemma close_block_uses_fast_sync : forall own_h block_h n g,
  (own_h <= block_h + 2 * n)%N -> (block_h <= own_h + 2 * n)%N -> choose_sync own_h block_h n true g = MFast.
Proof.
  intros own_h block_h n g H1 H2. unfold choose_sync, abs_diff.
  destruct (own_h <=? block_h)%N eqn:E; [apply N.leb_le in E|apply N.leb_gt in E].
  - assert (E2 : (block_h - own_h <=? 2 * n)%N = true) by (apply N.leb_le; lia). rewrite E2. reflexivity.
  - assert (E2 : (own_h - block_h <=? 2 * n)%N = true) by (apply N.leb_le; lia). rewrite E2. reflexivity.
Qed.

Lemma choose_sync_wrap_refuted :
  exists own_h block_h n g, (block_h < own_h)%N /\ (own_h <= block_h + 2 * n)%N /\
    choose_sync own_h block_h n true g = MFast /\ choose_sync_wrap own_h block_h n true g = MNone.
Proof. exists 16%N, 15%N, 4%N, 12%Z. split; [lia|]. split; [lia|]. split; vm_compute; reflexivity. Qed.
