From Coq Require Import List NArith Bool Arith Lia.
From LE Require Import Sync.Converge.
Import ListNotations.

Section Proofs.
  Variable valid : list id -> id -> bool.

  Lemma apply_all_valid : forall bs c, all_valid valid c bs -> apply_all valid c bs = (c ++ bs, true).
  Proof.
    induction bs as [|b r IH]; intros c H; cbn [apply_all]; [rewrite app_nil_r; reflexivity|].
    destruct H as [Hv Hr]. rewrite Hv, (IH _ Hr), <- app_assoc. reflexivity.
  Qed.

  Lemma apply_all_fails : forall good c bad rest, all_valid valid c good -> valid (c ++ good) bad = false ->
    apply_all valid c (good ++ bad :: rest) = (c ++ good, false).
  Proof.
    induction good as [|b r IH]; intros c bad rest H Hbad; cbn [app apply_all].
    - rewrite app_nil_r in *. rewrite Hbad. reflexivity.
    - destruct H as [Hv Hr]. rewrite Hv. rewrite (IH (c ++ [b]) bad rest Hr).
      + rewrite <- app_assoc. reflexivity.
      + rewrite <- app_assoc. exact Hbad.
  Qed.

  Lemma apply_all_extends : forall bs c, exists ext, fst (apply_all valid c bs) = c ++ ext.
  Proof.
    induction bs as [|b r IH]; intros c; cbn [apply_all]; [exists []; rewrite app_nil_r; reflexivity|].
    destruct (valid c b); [|exists []; rewrite app_nil_r; reflexivity].
    destruct (IH (c ++ [b])) as [ext He]. exists (b :: ext). rewrite He, <- app_assoc. reflexivity.
  Qed.

  Lemma index_of_mid : forall pre cid rest, ~ In cid pre -> index_of cid (pre ++ cid :: rest) = Some (length pre).
  Proof.
    induction pre as [|a r IH]; intros cid rest Hn; cbn [app index_of length].
    - rewrite N.eqb_refl. reflexivity.
    - destruct (N.eqb a cid) eqn:E; [apply N.eqb_eq in E; subst; exfalso; apply Hn; left; reflexivity|].
      rewrite IH; [reflexivity|]. intros H. apply Hn. right. exact H.
  Qed.

  Lemma firstn_mid : forall (pre : list id) cid rest, firstn (S (length pre)) (pre ++ cid :: rest) = pre ++ [cid].
  Proof. induction pre; intros; cbn; [reflexivity|]. f_equal. apply IHpre. Qed.

  Lemma skipn_mid : forall (pre : list id) cid rest, skipn (S (length pre)) (pre ++ cid :: rest) = rest.
  Proof. induction pre; intros; cbn; [reflexivity|]. apply IHpre. Qed.

  Lemma lookup_save_from : forall bs h t k,
    lookup k (save_from h bs t) =
    if (h <=? k) && (k <? h + length bs) then nth_error bs (k - h) else lookup k t.
  Proof.
    induction bs as [|b r IH]; intros h t k; cbn [save_from length].
    - replace (h + 0) with h by lia. destruct (h <=? k) eqn:E1; destruct (k <? h) eqn:E2; cbn; try reflexivity.
      apply Nat.leb_le in E1. apply Nat.ltb_lt in E2. lia.
    - rewrite IH. cbn [lookup].
      destruct (S h <=? k) eqn:E1; destruct (k <? S h + length r) eqn:E2; cbn [andb].
      + apply Nat.leb_le in E1. apply Nat.ltb_lt in E2.
        assert (E3 : (h <=? k) = true) by (apply Nat.leb_le; lia). assert (E4 : (k <? h + S (length r)) = true) by (apply Nat.ltb_lt; lia).
        rewrite E3, E4. cbn [andb]. replace (k - h) with (S (k - S h)) by lia. reflexivity.
      + apply Nat.leb_le in E1. apply Nat.ltb_ge in E2.
        assert (E4 : (k <? h + S (length r)) = false) by (apply Nat.ltb_ge; lia). rewrite E4, andb_false_r.
        assert (E5 : Nat.eqb h k = false) by (apply Nat.eqb_neq; lia). rewrite E5. reflexivity.
      + apply Nat.leb_gt in E1. destruct (Nat.eqb h k) eqn:E5.
        * apply Nat.eqb_eq in E5. subst k. rewrite Nat.leb_refl. assert (E4 : (h <? h + S (length r)) = true) by (apply Nat.ltb_lt; lia).
          rewrite E4. cbn [andb]. rewrite Nat.sub_diag. reflexivity.
        * apply Nat.eqb_neq in E5. assert (E3 : (h <=? k) = false) by (apply Nat.leb_gt; lia). rewrite E3. reflexivity.
      + apply Nat.leb_gt in E1. destruct (Nat.eqb h k) eqn:E5.
        * apply Nat.eqb_eq in E5. subst k. apply Nat.ltb_ge in E2. lia.
        * apply Nat.eqb_neq in E5. assert (E3 : (h <=? k) = false) by (apply Nat.leb_gt; lia). rewrite E3. reflexivity.
  Qed.

  Lemma temp_from_all : forall bs t h, (forall i, i < length bs -> lookup (h + i) t = nth_error bs i) ->
    temp_from t h (length bs) = bs.
  Proof.
    induction bs as [|b r IH]; intros t h H; cbn [length temp_from]; [reflexivity|].
    pose proof (H 0 ltac:(cbn; lia)) as H0. rewrite Nat.add_0_r in H0. cbn in H0. rewrite H0. f_equal.
    apply IH. intros i Hi. replace (S h + i) with (h + S i) by lia. rewrite (H (S i)) by (cbn; lia). reflexivity.
  Qed.

  Lemma temp_from_saved : forall bs h, temp_from (save_from h bs []) h (length bs) = bs.
  Proof.
    intros bs h. apply temp_from_all. intros i Hi. rewrite lookup_save_from.
    assert (E1 : (h <=? h + i) = true) by (apply Nat.leb_le; lia).
    assert (E2 : (h + i <? h + length bs) = true) by (apply Nat.ltb_lt; lia).
    rewrite E1, E2. cbn [andb]. replace (h + i - h) with i by lia. reflexivity.
  Qed.

  Lemma save_from_length : forall bs h t, length (save_from h bs t) = length bs + length t.
  Proof. induction bs; intros; cbn [save_from length]; [reflexivity|]. rewrite IHbs. cbn. lia. Qed.

  (* ---------------------------------------------------------------- convergence with an honest peer *)
  (* own chain = pre ++ cid :: own, peer's chain = pre ++ cid :: blocks; the peer answers cid and delivers blocks *)
  Lemma honest_peer_converges_fast : forall rs n pre cid own blocks th r2,
    chain n = pre ++ cid :: own -> ~ In cid pre ->
    finalized n <= length pre -> length own <= r2 -> th - length pre <= r2 ->
    all_valid valid (pre ++ [cid]) blocks ->
    fast_sync valid rs n (Some cid) blocks th r2 =
    ({| chain := pre ++ cid :: blocks; temp := []; finalized := finalized n; banned := banned n |}, Synced).
  Proof.
    intros rs n pre cid own blocks th r2 Hc Hn Hf Ho Ht Hv. unfold fast_sync. rewrite Hc, (index_of_mid _ _ _ Hn).
    assert (E1 : (length pre <? finalized n) = false) by (apply Nat.ltb_ge; lia). rewrite E1.
    rewrite app_length. cbn [length].
    assert (E2 : (r2 <? length pre + S (length own) - 1 - length pre) = false) by (apply Nat.ltb_ge; lia).
    assert (E3 : (r2 <? th - length pre) = false) by (apply Nat.ltb_ge; lia). rewrite E2, E3. cbn [orb].
    unfold delete_till. assert (E4 : (finalized n <=? length pre) = true) by (apply Nat.leb_le; lia). rewrite E4.
    cbn [chain]. rewrite Hc, firstn_mid, (apply_all_valid _ _ Hv). unfold clear_temp, with_chain. cbn [chain finalized banned].
    rewrite <- app_assoc. reflexivity.
  Qed.

  Lemma honest_peer_converges_block : forall n pre cid own blocks,
    chain n = pre ++ cid :: own -> ~ In cid pre -> finalized n <= length pre ->
    all_valid valid (pre ++ [cid]) blocks ->
    block_sync valid n (Some cid) blocks =
    ({| chain := pre ++ cid :: blocks; temp := []; finalized := finalized n; banned := banned n |}, Synced).
  Proof.
    intros n pre cid own blocks Hc Hn Hf Hv. unfold block_sync. rewrite Hc, (index_of_mid _ _ _ Hn).
    unfold delete_till. assert (E4 : (finalized n <=? length pre) = true) by (apply Nat.leb_le; lia). rewrite E4.
    cbn [chain]. rewrite Hc, firstn_mid, (apply_all_valid _ _ Hv). unfold clear_temp, with_chain. cbn [chain finalized banned].
    rewrite <- app_assoc. reflexivity.
  Qed.

  (* ---------------------------------------------------------------- failing fast sync *)
  (* with restoreBlocks deleting WITHOUT saving (the repair proposed in docs/C19.md): wherever the first invalid
     block sits, the original chain is back and the peer is banned *)
  Lemma failed_fast_sync_restores_and_bans_fixed_model : forall n pre cid own good bad rest th r2,
    chain n = pre ++ cid :: own -> ~ In cid pre -> temp n = [] ->
    finalized n <= length pre -> length own <= r2 -> th - length pre <= r2 ->
    all_valid valid (pre ++ [cid]) good -> valid ((pre ++ [cid]) ++ good) bad = false ->
    all_valid valid (pre ++ [cid]) own ->
    let '(n', o) := fast_sync valid false n (Some cid) (good ++ bad :: rest) th r2 in
    chain n' = chain n /\ banned n' = true /\ o = Failed.
  Proof.
    intros n pre cid own good bad rest th r2 Hc Hn Htmp Hf Ho Ht Hg Hbad Hown. unfold fast_sync.
    rewrite Hc, (index_of_mid _ _ _ Hn).
    assert (E1 : (length pre <? finalized n) = false) by (apply Nat.ltb_ge; lia). rewrite E1.
    rewrite app_length. cbn [length].
    assert (E2 : (r2 <? length pre + S (length own) - 1 - length pre) = false) by (apply Nat.ltb_ge; lia).
    assert (E3 : (r2 <? th - length pre) = false) by (apply Nat.ltb_ge; lia). rewrite E2, E3. cbn [orb].
    unfold delete_till at 1. assert (E4 : (finalized n <=? length pre) = true) by (apply Nat.leb_le; lia). rewrite E4.
    cbn [chain]. rewrite Hc, firstn_mid, skipn_mid, Htmp, (apply_all_fails _ _ _ _ Hg Hbad).
    unfold delete_till, with_chain. cbn [chain finalized temp banned]. rewrite E4.
    replace ((pre ++ [cid]) ++ good) with (pre ++ cid :: good) by (rewrite <- app_assoc; reflexivity).
    rewrite firstn_mid. cbn [chain temp finalized banned]. rewrite save_from_length. cbn [length]. rewrite Nat.add_0_r, temp_from_saved.
    rewrite (apply_all_valid _ _ Hown). unfold ban. cbn [chain banned].
    split; [rewrite <- app_assoc; reflexivity|]. split; reflexivity.
  Qed.

  (* the code as written (restoreBlocks deletes with saveTemp = true): proved when the FIRST applied block is the
     invalid one.  Full statement (any position of the invalid block) is refuted below. *)
  Lemma failed_fast_sync_restores_and_bans_partial : forall n pre cid own bad rest th r2,
    chain n = pre ++ cid :: own -> ~ In cid pre -> temp n = [] ->
    finalized n <= length pre -> length own <= r2 -> th - length pre <= r2 ->
    valid (pre ++ [cid]) bad = false -> all_valid valid (pre ++ [cid]) own ->
    let '(n', o) := fast_sync valid true n (Some cid) (bad :: rest) th r2 in
    chain n' = chain n /\ banned n' = true /\ o = Failed.
  Proof.
    intros n pre cid own bad rest th r2 Hc Hn Htmp Hf Ho Ht Hbad Hown. unfold fast_sync.
    rewrite Hc, (index_of_mid _ _ _ Hn).
    assert (E1 : (length pre <? finalized n) = false) by (apply Nat.ltb_ge; lia). rewrite E1.
    rewrite app_length. cbn [length].
    assert (E2 : (r2 <? length pre + S (length own) - 1 - length pre) = false) by (apply Nat.ltb_ge; lia).
    assert (E3 : (r2 <? th - length pre) = false) by (apply Nat.ltb_ge; lia). rewrite E2, E3. cbn [orb].
    unfold delete_till at 1. assert (E4 : (finalized n <=? length pre) = true) by (apply Nat.leb_le; lia). rewrite E4.
    cbn [chain]. rewrite Hc, firstn_mid, skipn_mid, Htmp. cbn [apply_all]. rewrite Hbad.
    unfold delete_till, with_chain. cbn [chain finalized temp banned]. rewrite E4.
    replace (pre ++ [cid]) with (pre ++ cid :: []) by reflexivity. rewrite firstn_mid, skipn_mid. cbn [save_from].
    cbn [chain temp finalized banned]. rewrite save_from_length. cbn [length]. rewrite Nat.add_0_r, temp_from_saved.
    rewrite (apply_all_valid _ _ Hown). unfold ban. cbn [chain banned].
    split; [rewrite <- app_assoc; reflexivity|]. split; reflexivity.
  Qed.
End Proofs.

(* the code as written loses the original blocks when some downloaded blocks were applied before the failure:
   deleting them again with saveTemp = true overwrites the temp entries of the same heights *)
Definition w_valid (c : list id) (b : id) : bool :=
  match b with
  | 1%N => match c with [0%N] => true | _ => false end
  | 2%N => match c with [0%N; 1%N] => true | _ => false end
  | 11%N => match c with [0%N] => true | _ => false end
  | _ => false
  end.

Lemma failed_fast_sync_restores_refuted :
  exists valid n cid own blocks th r2,
    chain n = [0%N] ++ own /\ cid = 0%N /\ temp n = [] /\ all_valid valid [0%N] own /\
    let '(n', o) := fast_sync valid true n (Some cid) blocks th r2 in
    chain n' <> chain n /\ banned n' = false.
Proof.
  exists w_valid, {| chain := [0; 1; 2]%N; temp := []; finalized := 0; banned := false |}, 0%N, [1; 2]%N, [11; 12]%N, 2, 4.
  split; [reflexivity|]. split; [reflexivity|]. split; [reflexivity|]. split; [cbn; auto|].
  vm_compute. split; [discriminate|reflexivity].
Qed.

(* ---------------------------------------------------------------- nothing at or below the finalized height is deleted *)
Section Keep.
  Variable valid : list id -> id -> bool.

  Definition keeps (n n' : node) : Prop :=
    firstn (S (finalized n)) (chain n') = firstn (S (finalized n)) (chain n) /\ finalized n' = finalized n.

  Lemma firstn_prefix_app : forall (c x : list id) f hc, f <= hc -> f < length c ->
    firstn (S f) (firstn (S hc) c ++ x) = firstn (S f) c.
  Proof.
    intros c x f hc Hle Hlt. rewrite firstn_app.
    assert (Hl : S f <= length (firstn (S hc) c)) by (rewrite firstn_length; lia).
    replace (S f - length (firstn (S hc) c)) with 0 by lia. rewrite firstn_O, app_nil_r.
    rewrite firstn_firstn. replace (Nat.min (S f) (S hc)) with (S f) by lia. reflexivity.
  Qed.

  Lemma delete_till_keeps : forall n hc save n1 x, finalized n < length (chain n) ->
    delete_till n hc save = Some n1 ->
    firstn (S (finalized n)) (chain n1 ++ x) = firstn (S (finalized n)) (chain n) /\ finalized n1 = finalized n /\
    chain n1 = firstn (S hc) (chain n) /\ finalized n <= hc.
  Proof.
    intros n hc save n1 x Hlen H. unfold delete_till in H. destruct (finalized n <=? hc) eqn:E; [|discriminate].
    apply Nat.leb_le in E. injection H as <-. cbn [chain finalized]. split; [apply firstn_prefix_app; assumption|auto].
  Qed.

  Lemma fast_sync_keeps_finalized : forall rs n common blocks th r2, finalized n < length (chain n) ->
    keeps n (fst (fast_sync valid rs n common blocks th r2)).
  Proof.
    intros rs n common blocks th r2 Hlen. unfold fast_sync, keeps.
    destruct common as [cid|]; [|cbn; auto]. destruct (index_of cid (chain n)) as [hc|]; [|cbn; auto].
    destruct (hc <? finalized n); [cbn; auto|]. destruct (_ || _); [cbn; auto|].
    destruct (delete_till n hc true) as [n1|] eqn:E1; [|cbn; auto].
    destruct (apply_all_extends valid blocks (chain n1)) as [ext He].
    destruct (apply_all valid (chain n1) blocks) as [c2 ok] eqn:Ea. cbn [fst] in He. subst c2.
    destruct (delete_till_keeps n hc true n1 ext Hlen E1) as (K1 & K2 & K3 & K4).
    destruct ok; [cbn [fst clear_temp with_chain chain finalized]; auto|].
    destruct (delete_till (with_chain n1 (chain n1 ++ ext)) hc rs) as [n3|] eqn:E3;
      [|cbn [fst with_chain chain finalized]; auto].
    destruct (apply_all_extends valid (temp_from (temp n3) (S hc) (length (temp n3))) (chain n3)) as [ext4 He4].
    destruct (apply_all valid (chain n3) _) as [c4 ok4] eqn:Ea4. cbn [fst] in He4. subst c4.
    assert (Hlen1 : finalized (with_chain n1 (chain n1 ++ ext)) < length (chain (with_chain n1 (chain n1 ++ ext)))).
    { cbn [with_chain chain finalized]. rewrite K2, app_length, K3, firstn_length. lia. }
    destruct (delete_till_keeps _ hc rs n3 ext4 Hlen1 E3) as (J1 & J2 & _ & _).
    cbn [with_chain chain finalized] in J1, J2. rewrite K2 in J1, J2.
    destruct ok4; cbn [fst ban with_chain chain finalized]; (split; [rewrite J1; exact K1|exact J2]).
  Qed.

  Lemma block_sync_keeps_finalized : forall n common blocks, finalized n < length (chain n) ->
    keeps n (fst (block_sync valid n common blocks)).
  Proof.
    intros n common blocks Hlen. unfold block_sync, keeps.
    destruct common as [cid|]; [|cbn; auto]. destruct (index_of cid (chain n)) as [hc|]; [|cbn; auto].
    destruct (delete_till n hc true) as [n1|] eqn:E1; [|cbn; auto].
    destruct (apply_all_extends valid blocks (chain n1)) as [ext He].
    destruct (apply_all valid (chain n1) blocks) as [c2 ok] eqn:Ea. cbn [fst] in He. subst c2.
    destruct (delete_till_keeps n hc true n1 ext Hlen E1) as (K1 & K2 & _).
    destruct ok; cbn [fst clear_temp with_chain chain finalized]; auto.
  Qed.
End Keep.
