(* The Lisk32 checksum is valid: polymod (data ++ createChecksum data) = 1, for every list of 5-bit values. *)
From Coq Require Import List NArith Arith Lia Bool Btauto.
From LE Require Import Codec.Lisk32 Codec.Lisk32Conv.
Import ListNotations.
Local Open Scope N_scope.

Definition sel (b : bool) (g : N) : N := if b then g else 0.

Definition gsum (top : N) : N :=
  N.lxor (N.lxor (N.lxor (N.lxor (sel (N.testbit top 0) 0x3b6a57b2) (sel (N.testbit top 1) 0x26508e6d))
                         (sel (N.testbit top 2) 0x1ea119fa)) (sel (N.testbit top 3) 0x3d4233dd))
         (sel (N.testbit top 4) 0x2a1462b3).

Lemma lxor_sel : forall (b : bool) c g, (if b then N.lxor c g else c) = N.lxor c (sel b g).
Proof. intros. destruct b; cbn [sel]; [reflexivity|]. rewrite N.lxor_0_r. reflexivity. Qed.

Lemma poly_step_eq : forall chk v,
  poly_step chk v = N.lxor (N.lxor ((chk mod 2 ^ 25) * 32) v) (gsum (chk / 2 ^ 25)).
Proof.
  intros. unfold poly_step, generator, gsum. cbn [combine fold_left fst snd].
  rewrite !lxor_sel. apply N.bits_inj. intro n. rewrite !N.lxor_spec. btauto.
Qed.

Lemma lxor_lt_pow2 : forall a b n, a < 2 ^ n -> b < 2 ^ n -> N.lxor a b < 2 ^ n.
Proof.
  intros a b n Ha Hb. destruct (N.eq_dec (N.lxor a b) 0) as [E|E]; [rewrite E; apply N.neq_0_lt_0, N.pow_nonzero; discriminate|].
  apply N.log2_lt_pow2; [lia|].
  pose proof (N.log2_lxor a b) as H.
  assert (La : a = 0 \/ N.log2 a < n) by (destruct (N.eq_dec a 0); [left; assumption|right; apply N.log2_lt_pow2; lia]).
  assert (Lb : b = 0 \/ N.log2 b < n) by (destruct (N.eq_dec b 0); [left; assumption|right; apply N.log2_lt_pow2; lia]).
  destruct La as [->|La], Lb as [->|Lb].
  - rewrite N.lxor_0_l in E. congruence.
  - rewrite N.lxor_0_l in *. assumption.
  - rewrite N.lxor_0_r in *. assumption.
  - lia.
Qed.

Lemma sel_lt : forall b g n, g < 2 ^ n -> sel b g < 2 ^ n.
Proof. intros. destruct b; cbn [sel]; [assumption|]. apply N.neq_0_lt_0, N.pow_nonzero. discriminate. Qed.

Lemma gsum_lt : forall top, gsum top < 2 ^ 30.
Proof. intros. unfold gsum. repeat apply lxor_lt_pow2; apply sel_lt; reflexivity. Qed.

Lemma poly_step_lt : forall chk v, v < 32 -> poly_step chk v < 2 ^ 30.
Proof.
  intros. rewrite poly_step_eq. apply lxor_lt_pow2; [apply lxor_lt_pow2|apply gsum_lt].
  - assert (chk mod 2 ^ 25 < 2 ^ 25) by (apply N.mod_lt; discriminate).
    change (2 ^ 30) with 1073741824. change (2 ^ 25) with 33554432 in *. lia.
  - change (2 ^ 30) with 1073741824. lia.
Qed.

Lemma polymod_snoc : forall l c, polymod (l ++ [c]) = poly_step (polymod l) c.
Proof. intros. unfold polymod. rewrite fold_left_app. reflexivity. Qed.

Lemma polymod_lt : forall l, Forall (fun v => v < 32) l -> polymod l < 2 ^ 30.
Proof.
  intros l. induction l as [|c l IH] using rev_ind; intros H; [reflexivity|].
  rewrite polymod_snoc. apply Forall_app in H. destruct H as [_ Hc]. inversion Hc; subst. apply poly_step_lt. assumption.
Qed.

(* a small perturbation of the state is carried through one step unchanged (shifted by 5 bits) *)
Lemma shiftr_small : forall p, p < 2 ^ 25 -> p / 2 ^ 25 = 0.
Proof. intros. apply N.div_small. assumption. Qed.

Lemma lin : forall s p c, p < 2 ^ 25 -> c < 32 ->
  poly_step (N.lxor s p) c = N.lxor (poly_step s 0) (p * 32 + c).
Proof.
  intros s p c Hp Hc. rewrite !poly_step_eq.
  assert (Htop : N.lxor s p / 2 ^ 25 = s / 2 ^ 25).
  { rewrite <- !N.shiftr_div_pow2. rewrite N.shiftr_lxor. rewrite (N.shiftr_div_pow2 p), shiftr_small by assumption.
    apply N.lxor_0_r. }
  assert (Hlow : N.lxor s p mod 2 ^ 25 = N.lxor (s mod 2 ^ 25) p).
  { rewrite <- !N.land_ones. apply N.bits_inj. intro n. rewrite !N.lxor_spec, !N.land_spec, N.lxor_spec.
    destruct (N.ltb_spec n 25) as [Hn|Hn].
    - rewrite N.ones_spec_low by assumption. btauto.
    - rewrite N.ones_spec_high by assumption.
      assert (N.testbit p n = false).
      { destruct (N.eq_dec p 0) as [->|Hz]; [apply N.bits_0|]. apply N.bits_above_log2.
        assert (N.log2 p < 25) by (apply N.log2_lt_pow2; lia). lia. }
      rewrite H. btauto. }
  rewrite Htop, Hlow.
  assert (Hmul : N.lxor (s mod 2 ^ 25) p * 32 = N.lxor (s mod 2 ^ 25 * 32) (p * 32)).
  { change 32 with (2 ^ 5). rewrite <- !N.shiftl_mul_pow2. apply N.shiftl_lxor. }
  rewrite Hmul.
  assert (Hadd : p * 32 + c = N.lxor (p * 32) c).
  { apply N.add_nocarry_lxor. apply N.bits_inj. intro n. rewrite N.land_spec, N.bits_0.
    change 32 with (2 ^ 5). rewrite <- N.shiftl_mul_pow2.
    destruct (N.ltb_spec n 5) as [Hn|Hn].
    - rewrite N.shiftl_spec_low by assumption. reflexivity.
    - assert (N.testbit c n = false).
      { destruct (N.eq_dec c 0) as [->|Hz]; [apply N.bits_0|]. apply N.bits_above_log2.
        assert (N.log2 c < 5) by (apply N.log2_lt_pow2; [lia|exact Hc]). lia. }
      rewrite H. apply andb_false_r. }
  rewrite Hadd. apply N.bits_inj. intro n. rewrite !N.lxor_spec. rewrite N.bits_0. btauto.
Qed.

(* appending k <= 6 digits perturbs the result of appending k zeros by the value of the digits *)
Lemma polymod_digits : forall u cs, (length cs <= 6)%nat -> Forall (fun v => v < 32) cs ->
  polymod (u ++ cs) = N.lxor (polymod (u ++ repeat 0 (length cs))) (val 5 cs).
Proof.
  intros u cs. induction cs as [|c cs IH] using rev_ind; intros Hl Hf.
  - cbn [length repeat val]. rewrite N.lxor_0_r. reflexivity.
  - rewrite app_length in Hl. cbn [length] in Hl. apply Forall_app in Hf. destruct Hf as [Hcs Hc]. inversion Hc; subst.
    rewrite app_assoc, polymod_snoc, IH by (try assumption; lia).
    assert (Hp : val 5 cs < 2 ^ 25).
    { pose proof (val_lt 5 cs Hcs) as B.
      assert (2 ^ (5 * N.of_nat (length cs)) <= 2 ^ 25) by (apply N.pow_le_mono_r; lia). lia. }
    rewrite lin by assumption.
    rewrite app_length. cbn [length]. replace (length cs + 1)%nat with (S (length cs)) by lia.
    rewrite <- (Nat.add_1_r (length cs)) at 1. rewrite repeat_app. cbn [repeat].
    rewrite app_assoc, polymod_snoc. f_equal.
    rewrite val_app. cbn [val length]. rewrite N.mul_0_r, N.mul_1_r. cbn. lia.
Qed.

Lemma digit_eq : forall m K, K <> 0 ->
  (m / K) mod 32 * K = (m / K) * K - (m / (K * 32)) * (K * 32) /\ (m / (K * 32)) * (K * 32) <= (m / K) * K.
Proof.
  intros m K HK. rewrite N.mod_eq by lia. rewrite N.div_div by lia.
  pose proof (N.mul_div_le (m / K) 32 ltac:(lia)) as H. rewrite N.div_div in H by lia. nia.
Qed.

Lemma digits_val : forall m, m < 2 ^ 30 ->
  val 5 (map (fun p => (m / 2 ^ (5 * (5 - p))) mod 32) [0; 1; 2; 3; 4; 5]) = m.
Proof.
  intros m Hm.
  assert (E : (m / 33554432) mod 32 * 33554432 + ((m / 1048576) mod 32 * 1048576 + ((m / 32768) mod 32 * 32768 +
              ((m / 1024) mod 32 * 1024 + ((m / 32) mod 32 * 32 + ((m / 1) mod 32 * 1 + 0))))) = m).
  { destruct (digit_eq m 33554432 ltac:(lia)) as [E0 L0]. destruct (digit_eq m 1048576 ltac:(lia)) as [E1 L1].
    destruct (digit_eq m 32768 ltac:(lia)) as [E2 L2]. destruct (digit_eq m 1024 ltac:(lia)) as [E3 L3].
    destruct (digit_eq m 32 ltac:(lia)) as [E4 L4]. destruct (digit_eq m 1 ltac:(lia)) as [E5 L5].
    rewrite E0, E1, E2, E3, E4, E5.
    change (33554432 * 32) with 1073741824 in *. change (1048576 * 32) with 33554432 in *.
    change (32768 * 32) with 1048576 in *. change (1024 * 32) with 32768 in *. change (32 * 32) with 1024 in *.
    change (1 * 32) with 32 in *.
    assert (m / 1073741824 = 0) by (apply N.div_small; exact Hm).
    rewrite N.div_1_r in *. lia. }
  exact E.
Qed.

Theorem checksum_valid : forall u5, Forall (fun v => v < 32) u5 -> polymod (u5 ++ create_checksum u5) = 1.
Proof.
  intros u5 Hu. unfold create_checksum.
  set (s6 := polymod (u5 ++ [0; 0; 0; 0; 0; 0])).
  assert (Hs : s6 < 2 ^ 30).
  { apply polymod_lt. apply Forall_app. split; [assumption|]. repeat constructor. }
  set (m := N.lxor s6 1).
  assert (Hm : m < 2 ^ 30) by (apply lxor_lt_pow2; [assumption|reflexivity]).
  rewrite polymod_digits.
  - rewrite digits_val by assumption. cbn [map length repeat]. fold s6. unfold m.
    rewrite <- N.lxor_assoc, N.lxor_nilpotent. reflexivity.
  - cbn. lia.
  - cbn [map]. repeat constructor; apply N.mod_lt; discriminate.
Qed.

Lemma checksum_digits : forall u5, length (create_checksum u5) = 6%nat /\ Forall (fun v => v < 32) (create_checksum u5).
Proof. intros. unfold create_checksum. cbn [map length]. split; [reflexivity|]. repeat constructor; apply N.mod_lt; discriminate. Qed.
