(* C09 for the codec: no reader primitive and no generated decoder can panic (index / slice out of range,
   negative make) or exhaust its loop fuel, on ANY byte string, in ANY reader state reachable from NewReader
   (index <= len(data); [end] arbitrary, as produced by nested length prefixes).  Steps are bounded because every
   loop iteration consumes at least one byte. *)
From Coq Require Import List NArith ZArith Arith Lia Bool String.
From Coq Require Import ZifyBool ZifyN ZifyNat.
From LE Require Import Codec.Varint Codec.VarintProofs Codec.Reader Codec.Schema.
Import ListNotations.
Local Open Scope N_scope.

(* reader invariant: Go slices are shorter than 2^62 bytes and the index never passes len(data) *)
Definition rinv (r : reader) : Prop := (idx r <= List.length (data r))%nat /\ (Z.of_nat (List.length (data r)) < 2^62)%Z.

(* outcome is a value or an error; on success the reader moved forward inside the same buffer *)
Definition total {A} (r : reader) (x : res (A * reader)) : Prop :=
  match x with
  | Ok (_, r') => data r' = data r /\ lim r' = lim r /\ (idx r <= idx r')%nat /\ rinv r'
  | Err _ => True
  | Panic => False
  | OutOfFuel => False
  end.
(* ... and consumed at least one byte *)
Definition progress {A} (r : reader) (x : res (A * reader)) : Prop :=
  match x with Ok (_, r') => (idx r < idx r')%nat | _ => True end.

Lemma read_uint_r_total : forall r, rinv r -> total r (read_uint_r r) /\ progress r (read_uint_r r).
Proof.
  intros r [Hi Hs]. unfold read_uint_r.
  destruct (read_uint_at (data r) (idx r)) as [[v k]| | |] eqn:E; cbn; auto.
  - rewrite read_uint_at_skipn in E. apply read_uint_size in E. rewrite skipn_length in E.
    unfold rinv. cbn. repeat split; try reflexivity; lia.
  - exfalso. exact (proj1 (read_uint_at_never_panics _ _) E).
  - exfalso. exact (proj2 (read_uint_at_never_panics _ _) E).
Qed.

Lemma check_total : forall r fn wt, rinv r ->
  match check r fn wt with
  | Ok r' => data r' = data r /\ lim r' = lim r /\ (idx r < idx r')%nat /\ rinv r'
  | Err _ => True
  | Panic | OutOfFuel => False
  end.
Proof.
  intros r fn wt [Hi Hs]. unfold check.
  destruct (lim r <=? Z.of_nat (idx r))%Z; [exact I|].
  destruct (read_uint_at (data r) (idx r)) as [[v k]| | |] eqn:E.
  - rewrite read_uint_at_skipn in E. apply read_uint_size in E. rewrite skipn_length in E.
    repeat match goal with |- context [if ?c then _ else _] => destruct c end; auto.
    unfold rinv. cbn. repeat split; try reflexivity; lia.
  - exact I.
  - exact (proj1 (read_uint_at_never_panics _ _) E).
  - exact (proj2 (read_uint_at_never_panics _ _) E).
Qed.

Lemma total_bind : forall A B r (x : res (A * reader)) (f : A * reader -> res (B * reader)),
  total r x -> (forall a r', x = Ok (a, r') -> total r' (f (a, r'))) -> total r (bind x f).
Proof.
  intros A B r x f Hx Hf. destruct x as [[a r']| | |]; cbn in *; auto.
  specialize (Hf a r' eq_refl). destruct (f (a, r')) as [[b r'']| | |]; cbn in *; auto.
  destruct Hx as (D & L & I & R), Hf as (D' & L' & I' & R'). repeat split; try congruence; try lia; try apply R'.
Qed.

Lemma with_key_total : forall A r fn wt strict (dflt : A) body, rinv r ->
  (forall r1, rinv r1 -> data r1 = data r -> lim r1 = lim r -> total r1 (body r1)) ->
  total r (with_key r fn wt strict dflt body).
Proof.
  intros A r fn wt strict dflt body Hr Hb. unfold with_key.
  pose proof (check_total r fn wt Hr) as Hc.
  destruct (check r fn wt) as [r1|e| |]; try contradiction.
  - destruct Hc as (D & L & I & R). specialize (Hb r1 R D L).
    destruct (body r1) as [[v r2]| | |]; cbn in *; auto.
    destruct Hb as (D' & L' & I' & R'). repeat split; try congruence; try lia; try apply R'.
  - destruct (strict_err e); [destruct strict|]; cbn; auto; try (repeat split; auto; apply Hr).
Qed.

Lemma read_int_r_total : forall r, rinv r -> total r (read_int_r r) /\ progress r (read_int_r r).
Proof.
  intros r Hr. unfold read_int_r. destruct (read_uint_r_total r Hr) as [Ht Hp].
  destruct (read_uint_r r) as [[v r']| | |]; cbn in *; auto.
Qed.

Lemma read_bool_r_total : forall r, rinv r -> total r (read_bool_r r) /\ progress r (read_bool_r r).
Proof.
  intros r [Hi Hs]. unfold read_bool_r.
  destruct (Nat.leb_spec (List.length (data r)) (idx r)); [cbn; auto|].
  destruct (nth_error (data r) (idx r)) eqn:E.
  - destruct (negb _); cbn; auto. unfold rinv. cbn. repeat split; lia.
  - apply nth_error_None in E. lia.
Qed.

Lemma read_bytes_r_total : forall r, rinv r -> total r (read_bytes_r r) /\ progress r (read_bytes_r r).
Proof.
  intros r Hr. unfold read_bytes_r. destruct (read_uint_r_total r Hr) as [Ht Hp].
  destruct (read_uint_r r) as [[size r1]| | |]; cbn [bind] in *; auto; try (cbn in *; tauto).
  cbn in Ht, Hp. destruct Ht as (D & L & I & [Hi Hs]).
  unfold to_u64. rewrite Z.mod_small by lia.
  destruct (N.ltb_spec (Z.to_N (Z.of_nat (List.length (data r1)) - Z.of_nat (idx r1))) size); [cbn; auto|].
  assert (Hsz : size < 2^63) by lia.
  unfold to_int. destruct (N.ltb_spec size (2^63)); [|lia].
  destruct (Z.ltb_spec (Z.of_N size) 0); [lia|].
  unfold wrap_int. rewrite Z.mod_small by lia.
  unfold slice.
  destruct ((0 <=? Z.of_nat (idx r1))%Z && (Z.of_nat (idx r1) <=? Z.of_nat (idx r1) + Z.of_N size + 2 ^ 63 - 2 ^ 63)%Z &&
            (Z.of_nat (idx r1) + Z.of_N size + 2 ^ 63 - 2 ^ 63 <=? Z.of_nat (List.length (data r1)))%Z) eqn:E; [|exfalso; lia].
  cbn. unfold rinv. cbn. repeat split; try congruence; lia.
Qed.

Lemma read_string_r_total : forall S r, rinv r -> total r (read_string_r S r) /\ progress r (read_string_r S r).
Proof.
  intros S r Hr. unfold read_string_r. destruct (read_bytes_r_total r Hr) as [Ht Hp].
  destruct (read_bytes_r r) as [[bs r1]| | |]; cbn [bind] in *; auto.
  destruct (negb (utf8_valid S bs)); [cbn; auto|]. destruct (negb (is_nfc S bs)); cbn; auto.
Qed.

(* loops: fuel > remaining bytes suffices because each iteration makes progress *)
Lemma packed_loop_total : forall A (elem : reader -> res (A * reader)),
  (forall r, rinv r -> total r (elem r) /\ progress r (elem r)) ->
  forall fuel r endz, rinv r -> (List.length (data r) - idx r < fuel)%nat -> total r (packed_loop fuel elem r endz).
Proof.
  intros A elem He. induction fuel as [|fuel IH]; intros r endz Hr Hf; [lia|].
  cbn [packed_loop]. destruct (endz <=? Z.of_nat (idx r))%Z.
  - cbn. repeat split; auto; try apply Hr.
  - destruct (He r Hr) as [Ht Hp].
    destruct (elem r) as [[v r1]| | |]; cbn [bind] in *; auto.
    destruct Ht as (D & L & I & R). cbn in Hp.
    assert (Hf1 : (List.length (data r1) - idx r1 < fuel)%nat) by (destruct R as [R1 R2]; rewrite D in *; lia).
    specialize (IH r1 endz R Hf1).
    destruct (packed_loop fuel elem r1 endz) as [[vs r2]| | |]; cbn in *; auto.
    destruct IH as (D' & L' & I' & R'). repeat split; try congruence; try lia; try apply R'.
Qed.

Lemma read_packed_total : forall A (elem : reader -> res (A * reader)),
  (forall r, rinv r -> total r (elem r) /\ progress r (elem r)) ->
  forall r fn, rinv r -> total r (read_packed elem r fn).
Proof.
  intros A elem He r fn Hr. unfold read_packed. apply with_key_total; auto.
  intros r1 Hr1 D1 L1. apply total_bind; [apply read_uint_r_total; assumption|].
  intros len r2 E. pose proof (proj1 (read_uint_r_total r1 Hr1)) as Ht. rewrite E in Ht. cbn in Ht.
  destruct Ht as (D & L & I & R).
  apply packed_loop_total; auto. unfold loop_fuel. rewrite D, D1. lia.
Qed.

Lemma rep_loop_total : forall A (elem : reader -> res (A * reader)) fn,
  (forall r, rinv r -> total r (elem r)) ->
  forall fuel r, rinv r -> (List.length (data r) - idx r < fuel)%nat -> total r (rep_loop fuel fn elem r).
Proof.
  intros A elem fn He. induction fuel as [|fuel IH]; intros r Hr Hf; [lia|].
  cbn [rep_loop]. destruct (lim r <=? Z.of_nat (idx r))%Z.
  - cbn. repeat split; auto; try apply Hr.
  - pose proof (check_total r fn 2 Hr) as Hc.
    destruct (check r fn 2) as [r1|e| |]; try contradiction.
    + destruct Hc as (D & L & I & R). specialize (He r1 R).
      destruct (elem r1) as [[v r2]| | |]; cbn [bind] in *; auto.
      destruct He as (D2 & L2 & I2 & R2).
      assert (Hf2 : (List.length (data r2) - idx r2 < fuel)%nat) by (destruct R2 as [R21 R22]; rewrite D2, D in *; lia).
      specialize (IH r2 R2 Hf2).
      destruct (rep_loop fuel fn elem r2) as [[vs r3]| | |]; cbn in *; auto.
      destruct IH as (D' & L' & I' & R'). repeat split; try congruence; try lia; try apply R'.
    + destruct (strict_err e); cbn; auto; try (repeat split; auto; apply Hr).
Qed.

Lemma total_lift : forall A B (f : A -> B) r (x : res (A * reader)), total r x -> total r (lift f x).
Proof. intros. unfold lift. destruct x as [[a r']| | |]; cbn in *; auto. Qed.

(* ---- every exported Read* ---- *)
Section Prims.
Variable S : strops.
Variable r : reader.
Variable fn : N.
Hypothesis Hr : rinv r.
Ltac wk := apply with_key_total; [exact Hr|]; intros r1 Hr1 _ _.

Lemma ReadUInt_total : forall strict, total r (ReadUInt r fn strict).
Proof. intros. unfold ReadUInt. wk. apply read_uint_r_total. assumption. Qed.
Lemma ReadUInt32_total : forall strict, total r (ReadUInt32 r fn strict).
Proof.
  intros. unfold ReadUInt32. apply total_bind; [apply ReadUInt_total|]. intros v r' E.
  pose proof (ReadUInt_total strict) as H. rewrite E in H. cbn in *. destruct H as (D & L & I & R).
  repeat split; auto; try apply R.
Qed.
Lemma ReadUInts_total : total r (ReadUInts r fn).
Proof. unfold ReadUInts. apply read_packed_total; auto. apply read_uint_r_total. Qed.
Lemma ReadUInt32s_total : total r (ReadUInt32s r fn).
Proof.
  unfold ReadUInt32s. pose proof (read_packed_total _ read_uint_r read_uint_r_total r fn Hr) as H.
  destruct (read_packed read_uint_r r fn) as [[v r']| | |]; cbn in *; auto.
Qed.
Lemma ReadInt_total : forall strict, total r (ReadInt r fn strict).
Proof. intros. unfold ReadInt. wk. apply read_int_r_total. assumption. Qed.
Lemma ReadInt32_total : forall strict, total r (ReadInt32 r fn strict).
Proof.
  intros. unfold ReadInt32. wk. pose proof (proj1 (read_int_r_total r1 Hr1)) as H.
  destruct (read_int_r r1) as [[v r']| | |]; cbn in *; auto.
Qed.
Lemma ReadInts_total : total r (ReadInts r fn).
Proof. unfold ReadInts. apply read_packed_total; auto. apply read_int_r_total. Qed.
Lemma ReadBool_total : forall strict, total r (ReadBool r fn strict).
Proof. intros. unfold ReadBool. wk. apply read_bool_r_total. assumption. Qed.
Lemma ReadBools_total : total r (ReadBools r fn).
Proof. unfold ReadBools. apply read_packed_total; auto. apply read_bool_r_total. Qed.
Lemma ReadBytes_total : forall strict, total r (ReadBytes r fn strict).
Proof. intros. unfold ReadBytes. wk. apply read_bytes_r_total. assumption. Qed.
Lemma ReadBytesArray_total : total r (ReadBytesArray r fn).
Proof.
  unfold ReadBytesArray. apply rep_loop_total; auto.
  - intros. apply read_bytes_r_total. assumption.
  - unfold loop_fuel. lia.
Qed.
Lemma ReadString_total : forall strict, total r (ReadString S r fn strict).
Proof. intros. unfold ReadString. wk. apply read_string_r_total. assumption. Qed.
Lemma ReadStrings_total : total r (ReadStrings S r fn).
Proof.
  unfold ReadStrings. apply rep_loop_total; auto.
  - intros. apply read_string_r_total. assumption.
  - unfold loop_fuel. lia.
Qed.
End Prims.

(* ---- the generated decoders, for every environment and every schema whose nesting depth fits the fuel ---- *)
Section Schema.
Variable S : strops.
Variable E : env.

Lemma read_nested_total : forall rec ns,
  (forall r, rinv r -> total r (rec ns r)) ->
  forall r1, rinv r1 -> total r1 (read_nested rec ns r1).
Proof.
  intros rec ns Hrec r1 Hr1. unfold read_nested.
  pose proof (proj1 (read_uint_r_total r1 Hr1)) as Hu.
  destruct (read_uint_r r1) as [[size r2]| | |]; cbn [bind] in *; auto.
  destruct Hu as (D & L & I & R).
  assert (Rn : rinv (nested r2 size)) by (unfold rinv, nested in *; cbn; exact R).
  specialize (Hrec (nested r2 size) Rn).
  destruct (rec ns (nested r2 size)) as [[nv rn]| | |]; cbn in *; auto.
  destruct Hrec as (D' & L' & I' & R'). unfold rinv in *. cbn in *.
  repeat split; try congruence; try lia; rewrite <- D'; try apply R'.
Qed.

Lemma decode_field_total : forall rec strict fn ty r,
  (forall nm ns, (match ty with TMsg n | TMsgs n => n = nm | _ => False end) -> lookup E nm = Some ns ->
                 forall r, rinv r -> total r (rec ns r)) ->
  rinv r -> total r (decode_field S E rec strict fn ty r).
Proof.
  intros rec strict fn ty r Hrec Hr. destruct ty; cbn [decode_field]; try (apply total_lift).
  - apply ReadBool_total; assumption.
  - apply ReadUInt32_total; assumption.
  - apply ReadUInt_total; assumption.
  - apply ReadInt32_total; assumption.
  - apply ReadInt_total; assumption.
  - apply ReadString_total; assumption.
  - apply ReadBytes_total; assumption.
  - apply ReadBytesArray_total; assumption.
  - apply ReadStrings_total; assumption.
  - apply ReadBools_total; assumption.
  - apply ReadUInt32s_total; assumption.
  - apply ReadUInts_total; assumption.
  - destruct (lookup E name) as [ns|] eqn:L; [|exact I]. apply total_lift.
    apply with_key_total; auto. intros r1 Hr1 _ _. apply read_nested_total; auto.
    intros. eapply Hrec; eauto.
  - destruct (lookup E name) as [ns|] eqn:L; [|exact I]. apply total_lift.
    apply rep_loop_total; auto.
    + intros r1 Hr1. apply read_nested_total; auto. intros. eapply Hrec; eauto.
    + unfold loop_fuel. lia.
Qed.

Lemma decode_fields_total : forall df s r,
  (forall fn ty r, In (fn, ty) s -> rinv r -> total r (df fn ty r)) ->
  rinv r -> total r (decode_fields df s r).
Proof.
  intros df s. induction s as [|[fn ty] s IH]; intros r Hdf Hr; cbn [decode_fields].
  - cbn. repeat split; auto; try apply Hr.
  - pose proof (Hdf fn ty r (or_introl eq_refl) Hr) as H1.
    destruct (df fn ty r) as [[v r1]| | |]; cbn [bind] in *; auto.
    destruct H1 as (D & L & I & R).
    assert (H2 : total r1 (decode_fields df s r1)) by (apply IH; auto; intros; apply Hdf; auto; right; assumption).
    destruct (decode_fields df s r1) as [[vs r2]| | |]; cbn in *; auto.
    destruct H2 as (D' & L' & I' & R'). repeat split; try congruence; try lia; try apply R'.
Qed.

Theorem decode_struct_total : forall fuel strict s r,
  depth_le E fuel s = true -> rinv r -> total r (decode_struct S E fuel strict s r).
Proof.
  induction fuel as [|fuel IH]; intros strict s r Hd Hr; [cbn in Hd; discriminate|].
  cbn [decode_struct]. apply decode_fields_total; auto.
  intros fn ty r0 Hin Hr0. apply decode_field_total; auto.
  intros nm ns Hty Hl r1 Hr1. apply IH; auto.
  cbn [depth_le] in Hd. rewrite forallb_forall in Hd. specialize (Hd (fn, ty) Hin). cbn [snd] in Hd.
  destruct ty; try contradiction; subst; rewrite Hl in Hd; exact Hd.
Qed.

End Schema.

Lemma rinv_new : forall d, (Z.of_nat (List.length d) < 2^62)%Z -> rinv (new_reader d).
Proof. intros. unfold rinv, new_reader. cbn. split; [lia|assumption]. Qed.

Definition is_value_or_error {A} (x : res A) : Prop :=
  match x with Ok _ | Err _ => True | Panic | OutOfFuel => False end.

Theorem Decode_never_panics : forall S E fuel s d, depth_le E fuel s = true -> (Z.of_nat (List.length d) < 2^62)%Z ->
  is_value_or_error (Decode S E fuel s d).
Proof.
  intros. unfold Decode. pose proof (decode_struct_total S E fuel false s (new_reader d) H (rinv_new d H0)) as T.
  destruct (decode_struct S E fuel false s (new_reader d)) as [[vs r]| | |]; cbn in *; auto.
Qed.

Theorem DecodeStrict_never_panics : forall S E fuel s d, depth_le E fuel s = true -> (Z.of_nat (List.length d) < 2^62)%Z ->
  is_value_or_error (DecodeStrict S E fuel s d).
Proof.
  intros. unfold DecodeStrict. pose proof (decode_struct_total S E fuel true s (new_reader d) H (rinv_new d H0)) as T.
  destruct (decode_struct S E fuel true s (new_reader d)) as [[vs r]| | |]; cbn in *; auto.
  destruct (has_unread r); exact I.
Qed.

(* memory: readBytes never allocates more than the input that remains (the size guard precedes make) *)
Theorem read_bytes_alloc_bounded : forall r bs r', rinv r -> read_bytes_r r = Ok (bs, r') ->
  (List.length bs <= List.length (data r) - idx r)%nat.
Proof.
  intros r bs r' Hr H. unfold read_bytes_r in H. destruct (read_uint_r_total r Hr) as [Ht Hp].
  destruct (read_uint_r r) as [[size r1]| | |]; cbn [bind] in *; try discriminate.
  cbn in Ht, Hp. destruct Ht as (D & L & I & [Hi Hs]).
  unfold to_u64 in H. rewrite Z.mod_small in H by lia.
  destruct (N.ltb_spec (Z.to_N (Z.of_nat (List.length (data r1)) - Z.of_nat (idx r1))) size); [discriminate|].
  unfold to_int in H. destruct (N.ltb_spec size (2^63)); [|lia].
  destruct (Z.ltb_spec (Z.of_N size) 0); [lia|].
  unfold wrap_int in H. rewrite Z.mod_small in H by lia.
  unfold slice in H.
  destruct ((0 <=? Z.of_nat (idx r1))%Z && (Z.of_nat (idx r1) <=? Z.of_nat (idx r1) + Z.of_N size + 2 ^ 63 - 2 ^ 63)%Z &&
            (Z.of_nat (idx r1) + Z.of_N size + 2 ^ 63 - 2 ^ 63 <=? Z.of_nat (List.length (data r1)))%Z) eqn:E; [|discriminate].
  cbn [bind] in H. inversion H; subst. rewrite firstn_length. rewrite D in *. lia.
Qed.
