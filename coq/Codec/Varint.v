(* Model of pkg/codec/reader.go readUint / varintShortestSize and of encoding/binary.PutUvarint
   (used by pkg/codec/writer.go writeUInt / getKey).  Bytes are [N] (< 256 by [bytes_ok]). *)
From Coq Require Import List NArith Arith Bool.
Import ListNotations.
Local Open Scope N_scope.

(* pkg/codec/errors.go + the three fmt/errors.New errors of reader.go (size, utf8, nfc) *)
Inductive err :=
| ErrInvalidData | ErrOutOfRange | ErrNoTerminate | ErrUnexpectedFieldNumber | ErrFieldNumberNotFound
| ErrUnreadBytes | ErrUnnecessaryLeadingBytes | ErrSize | ErrUtf8 | ErrNfc.

(* outcome of a model step: [Panic] = a Go slice index / slice expression out of range,
   [OutOfFuel] = the model's loop fuel ran out (excluded by theorem, never by definition) *)
Inductive res (A : Type) := Ok (a : A) | Err (e : err) | Panic | OutOfFuel.
Arguments Ok {A}. Arguments Err {A}. Arguments Panic {A}. Arguments OutOfFuel {A}.

Definition bind {A B} (x : res A) (f : A -> res B) : res B :=
  match x with Ok a => f a | Err e => Err e | Panic => Panic | OutOfFuel => OutOfFuel end.

Definition bytes_ok (bs : list N) := Forall (fun b => b < 256) bs.
Definition bytes_okb (bs : list N) : bool := forallb (fun b => b <? 256) bs.

(* writer: binary.PutUvarint (at most 10 bytes for a uint64) *)
Fixpoint enc_fuel (fuel : nat) (n : N) : list N :=
  match fuel with
  | O => []
  | S f => if n <? 128 then [n] else (n mod 128 + 128) :: enc_fuel f (n / 128)
  end.
Definition enc_varint (n : N) := enc_fuel 10 n.

(* reader.go varintShortestSize, as the threshold switch *)
Definition shortest_size (n : N) : nat :=
  if n <? 2^7 then 1 else if n <? 2^14 then 2 else if n <? 2^21 then 3 else
  if n <? 2^28 then 4 else if n <? 2^35 then 5 else if n <? 2^42 then 6 else
  if n <? 2^49 then 7 else if n <? 2^56 then 8 else if n <? 2^63 then 9 else 10%nat.

(* reader.go readUint on a list: 10 iterations, i = number of bytes consumed so far.
   [result |= (bit & 0x7f) << shift] is [acc + (b mod 128) * 2^(7 i)] (disjoint bits). *)
Fixpoint read_aux (fuel i : nat) (acc : N) (bs : list N) : res (N * nat) :=
  match fuel with
  | O => Err ErrNoTerminate
  | S f =>
    match bs with
    | [] => Err ErrInvalidData
    | b :: tl =>
      if Nat.eqb (S i) 10 && (1 <? b) then Err ErrOutOfRange else
      let acc' := acc + (b mod 128) * 2 ^ (7 * N.of_nat i) in
      if b <? 128 then
        if Nat.eqb (shortest_size acc') (S i) then Ok (acc', S i) else Err ErrUnnecessaryLeadingBytes
      else read_aux f (S i) acc' tl
    end
  end.
Definition read_uint (bs : list N) := read_aux 10 0 0 bs.

(* the same function as written in Go: indexes data[offset+i] after the [index >= len(data)] guard;
   a failed index is the explicit outcome [Panic] *)
Fixpoint read_at (fuel : nat) (data : list N) (offset i : nat) (acc : N) : res (N * nat) :=
  match fuel with
  | O => Err ErrNoTerminate
  | S f =>
    if (length data <=? offset + i)%nat then Err ErrInvalidData else
    match nth_error data (offset + i) with
    | None => Panic
    | Some b =>
      if Nat.eqb (S i) 10 && (1 <? b) then Err ErrOutOfRange else
      let acc' := acc + (b mod 128) * 2 ^ (7 * N.of_nat i) in
      if b <? 128 then
        if Nat.eqb (shortest_size acc') (S i) then Ok (acc', S i) else Err ErrUnnecessaryLeadingBytes
      else read_at f data offset (S i) acc'
    end
  end.
Definition read_uint_at (data : list N) (offset : nat) := read_at 10 data offset 0 0.

(* recursive characterisation of the size *)
Fixpoint size_fuel (fuel : nat) (n : N) : nat :=
  match fuel with
  | O => 0
  | S f => if n <? 128 then 1 else S (size_fuel f (n / 128))
  end.
