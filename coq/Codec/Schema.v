(* Model of the generated codec (pkg/codec/gen/info.go EncodeLogic / decodeLogic + templates/codec.tmpl):
   a struct schema is the list of its (field number, field type) in generation order; nested messages refer
   to other structs by name through an environment; recursion over nesting depth uses fuel.
   Quirks kept: ReadDecodable / ReadDecodables always call DecodeFromReader (lenient) on the nested reader even
   under DecodeStrict, never check the nested reader for unread bytes, and resume the outer reader at the
   nested reader's index; a nil nested message is not written, and is read back as new(T) when lenient. *)
From Coq Require Import List NArith ZArith Arith Bool String.
From LE Require Import Codec.Varint Codec.Reader Codec.Writer.
Import ListNotations.
Local Open Scope N_scope.

Inductive ftype :=
| TBool | TU32 | TU64 | TI32 | TI64 | TStr | TBytes | TBytesArr | TStrs | TBools | TU32s | TU64s
| TMsg (name : string) | TMsgs (name : string).

Definition field : Type := N * ftype.
Definition schema : Type := list field.
Definition env : Type := list (string * schema).

Fixpoint lookup (e : env) (nm : string) : option schema :=
  match e with [] => None | (n, s) :: e' => if String.eqb n nm then Some s else lookup e' nm end.

(* a struct value: one [value] per field, in schema order.  nil and empty slices are the same value. *)
Inductive value :=
| VBool (b : bool)
| VU (n : N)                       (* uint32 / uint64 *)
| VI (z : Z)                       (* int32 / int64 *)
| VBytes (bs : list N)             (* []byte / string (UTF-8 bytes) *)
| VBytesL (l : list (list N))      (* [][]byte / []string *)
| VBools (l : list bool)
| VUs (l : list N)                 (* []uint32 / []uint64 *)
| VMsg (m : option (list value))   (* *T, None = nil *)
| VMsgs (l : list (list value)).   (* []*T without nil elements (Encode skips nil elements) *)

Definition zero_value (ty : ftype) : value :=
  match ty with
  | TBool => VBool false | TU32 | TU64 => VU 0 | TI32 | TI64 => VI 0%Z | TStr | TBytes => VBytes []
  | TBytesArr | TStrs => VBytesL [] | TBools => VBools [] | TU32s | TU64s => VUs []
  | TMsg _ => VMsg None | TMsgs _ => VMsgs []
  end.
Definition zero_struct (s : schema) : list value := map (fun f => zero_value (snd f)) s.

Section WithStr.
Context (S : strops) (E : env).

(* ---- Encode ---- *)
Definition encode_field (rec : schema -> list value -> list N) (fn : N) (ty : ftype) (v : value) : list N :=
  match ty, v with
  | TBool, VBool b => WriteBool fn b
  | TU32, VU n => WriteUInt32 fn n
  | TU64, VU n => WriteUInt fn n
  | TI32, VI z => WriteInt32 fn z
  | TI64, VI z => WriteInt fn z
  | TStr, VBytes s => WriteString S fn s
  | TBytes, VBytes b => WriteBytes fn b
  | TBytesArr, VBytesL l => WriteBytesArray fn l
  | TStrs, VBytesL l => WriteStrings S fn l
  | TBools, VBools l => WriteBools fn l
  | TU32s, VUs l => WriteUInt32s fn l
  | TU64s, VUs l => WriteUInts fn l
  | TMsg nm, VMsg (Some nv) =>
    match lookup E nm with Some ns => WriteEncodable fn (Some (rec ns nv)) | None => [] end
  | TMsgs nm, VMsgs l =>
    match lookup E nm with
    | Some ns => flat_map (fun nv => WriteEncodable fn (Some (rec ns nv))) l
    | None => []
    end
  | _, _ => []
  end.

Fixpoint encode_fields (ef : N -> ftype -> value -> list N) (s : schema) (vs : list value) : list N :=
  match s, vs with
  | (fn, ty) :: s', v :: vs' => ef fn ty v ++ encode_fields ef s' vs'
  | _, _ => []
  end.

Fixpoint encode_struct (fuel : nat) (s : schema) (vs : list value) : list N :=
  match fuel with
  | O => []
  | Datatypes.S f => encode_fields (encode_field (encode_struct f)) s vs
  end.

(* ---- Decode / DecodeStrict ---- *)
Definition lift {A B} (f : A -> B) (x : res (A * reader)) : res (B * reader) :=
  bind x (fun '(v, r) => Ok (f v, r)).

(* size prefix, nested reader, DecodeFromReader, resume *)
Definition read_nested (rec : schema -> reader -> res (list value * reader)) (ns : schema) (r1 : reader)
  : res (list value * reader) :=
  bind (read_uint_r r1) (fun '(size, r2) =>
  bind (rec ns (nested r2 size)) (fun '(nv, rn) => Ok (nv, resume r2 rn))).

Definition decode_field (rec : schema -> reader -> res (list value * reader)) (strict : bool)
           (fn : N) (ty : ftype) (r : reader) : res (value * reader) :=
  match ty with
  | TBool => lift VBool (ReadBool r fn strict)
  | TU32 => lift VU (ReadUInt32 r fn strict)
  | TU64 => lift VU (ReadUInt r fn strict)
  | TI32 => lift VI (ReadInt32 r fn strict)
  | TI64 => lift VI (ReadInt r fn strict)
  | TStr => lift VBytes (ReadString S r fn strict)
  | TBytes => lift VBytes (ReadBytes r fn strict)
  | TBytesArr => lift VBytesL (ReadBytesArray r fn)
  | TStrs => lift VBytesL (ReadStrings S r fn)
  | TBools => lift VBools (ReadBools r fn)
  | TU32s => lift VUs (ReadUInt32s r fn)
  | TU64s => lift VUs (ReadUInts r fn)
  | TMsg nm =>
    match lookup E nm with
    | None => Err ErrInvalidData      (* excluded by wf_env *)
    | Some ns =>
      lift (fun nv => VMsg (Some nv)) (with_key r fn 2 strict (zero_struct ns) (read_nested rec ns))
    end
  | TMsgs nm =>
    match lookup E nm with
    | None => Err ErrInvalidData
    | Some ns => lift VMsgs (rep_loop (loop_fuel r) fn (read_nested rec ns) r)
    end
  end.

Fixpoint decode_fields (df : N -> ftype -> reader -> res (value * reader)) (s : schema) (r : reader)
  : res (list value * reader) :=
  match s with
  | [] => Ok ([], r)
  | (fn, ty) :: s' =>
    bind (df fn ty r) (fun '(v, r1) =>
    bind (decode_fields df s' r1) (fun '(vs, r2) => Ok (v :: vs, r2)))
  end.

(* DecodeFromReader (strict = false) / DecodeStrictFromReader (strict = true); nested always lenient *)
Fixpoint decode_struct (fuel : nat) (strict : bool) (s : schema) (r : reader) : res (list value * reader) :=
  match fuel with
  | O => OutOfFuel
  | Datatypes.S f => decode_fields (decode_field (decode_struct f false) strict) s r
  end.

Definition Decode (fuel : nat) (s : schema) (d : list N) : res (list value) :=
  bind (decode_struct fuel false s (new_reader d)) (fun '(vs, _) => Ok vs).

Definition DecodeStrict (fuel : nat) (s : schema) (d : list N) : res (list value) :=
  bind (decode_struct fuel true s (new_reader d)) (fun '(vs, r) =>
    if has_unread r then Err ErrUnreadBytes else Ok vs).

(* ---- canonical form of a value: NFC strings, nil message = zero message ---- *)
Definition canon_field (rec : schema -> list value -> list value) (ty : ftype) (v : value) : value :=
  match ty, v with
  | TStr, VBytes s => VBytes (nfc_norm S s)
  | TStrs, VBytesL l => VBytesL (map (nfc_norm S) l)
  | TMsg nm, VMsg None => match lookup E nm with Some ns => VMsg (Some (zero_struct ns)) | None => v end
  | TMsg nm, VMsg (Some nv) => match lookup E nm with Some ns => VMsg (Some (rec ns nv)) | None => v end
  | TMsgs nm, VMsgs l => match lookup E nm with Some ns => VMsgs (map (rec ns) l) | None => v end
  | _, _ => v
  end.
Fixpoint canon_fields (cf : ftype -> value -> value) (s : schema) (vs : list value) : list value :=
  match s, vs with
  | (_, ty) :: s', v :: vs' => cf ty v :: canon_fields cf s' vs'
  | _, _ => []
  end.
Fixpoint canon_struct (fuel : nat) (s : schema) (vs : list value) : list value :=
  match fuel with
  | O => []
  | Datatypes.S f => canon_fields (canon_field (canon_struct f)) s vs
  end.

End WithStr.

(* ---- well-formedness (computable; discharged by vm_compute on the translated schemas) ---- *)
Definition fn_okb (fn : N) : bool := (1 <=? fn) && (fn <? 2^28).
Fixpoint increasing (prev : N) (s : schema) : bool :=
  match s with [] => true | (fn, _) :: s' => (prev <? fn) && fn_okb fn && increasing fn s' end.

Fixpoint depth_le (E : env) (n : nat) (s : schema) : bool :=
  match n with
  | O => false
  | Datatypes.S m =>
    forallb (fun f => match snd f with
                      | TMsg nm | TMsgs nm => match lookup E nm with Some ns => depth_le E m ns | None => false end
                      | _ => true
                      end) s
  end.

Definition max_depth : nat := 8.
Definition wf_schema (E : env) (s : schema) : bool := increasing 0 s && depth_le E max_depth s.
Definition wf_env (E : env) : bool := forallb (fun p => wf_schema E (snd p)) E.

(* flat schemas for which strict acceptance is canonical: no 32-bit truncation, no packed arrays, no
   nested messages *)
Definition flat_canon_ty (ty : ftype) : bool :=
  match ty with TBool | TU64 | TI64 | TStr | TBytes | TBytesArr | TStrs => true | _ => false end.
Definition flat_canon (s : schema) : bool := forallb (fun f => flat_canon_ty (snd f)) s.

Definition ftype_eqb (a b : ftype) : bool :=
  match a, b with
  | TBool, TBool | TU32, TU32 | TU64, TU64 | TI32, TI32 | TI64, TI64 | TStr, TStr | TBytes, TBytes
  | TBytesArr, TBytesArr | TStrs, TStrs | TBools, TBools | TU32s, TU32s | TU64s, TU64s => true
  | TMsg x, TMsg y | TMsgs x, TMsgs y => String.eqb x y
  | _, _ => false
  end.
Fixpoint schema_eqb (a b : schema) : bool :=
  match a, b with
  | [], [] => true
  | (f1, t1) :: a', (f2, t2) :: b' => (f1 =? f2) && ftype_eqb t1 t2 && schema_eqb a' b'
  | _, _ => false
  end.
