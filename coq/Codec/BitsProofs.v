From Coq Require Import List NArith Arith Lia Bool ZArith.
From Coq Require Import ZifyBool ZifyN ZifyNat.
From LE Require Import Codec.Varint Codec.Bits.
Import ListNotations.
Local Open Scope N_scope.
Ltac Zify.zify_post_hook ::= Z.div_mod_to_equations.

Theorem bits_read_safe : forall bits n i, length bits = ((n + 7) / 8)%nat -> (i < n)%nat ->
  exists b, bits_read bits i = Ok b.
Proof.
  intros bits n i Hl Hi. unfold bits_read.
  destruct (nth_error bits (i / 8)) eqn:E; [eexists; reflexivity|].
  apply nth_error_None in E. exfalso. lia.
Qed.

Lemma select_safe : forall bits weights n m i, length bits = ((n + 7) / 8)%nat -> length weights = n ->
  (i + m = n)%nat -> exists r, select bits weights i m = Ok r.
Proof.
  intros bits weights n. induction m as [|m IH]; intros i Hb Hw Him; cbn [select]; [eexists; reflexivity|].
  destruct (bits_read_safe bits n i Hb ltac:(lia)) as [b Eb]. rewrite Eb. cbn [bind].
  destruct (IH (S i) Hb Hw ltac:(lia)) as [[ks s] Es].
  destruct b.
  - destruct (nth_error weights i) eqn:E.
    + rewrite Es. cbn. eexists; reflexivity.
    + apply nth_error_None in E. lia.
  - rewrite Es. eexists; reflexivity.
Qed.

Theorem weighted_select_never_panics : forall nkeys bits weights,
  weighted_select nkeys bits weights <> Panic /\ weighted_select nkeys bits weights <> OutOfFuel.
Proof.
  intros. unfold weighted_select, weighted_precheck.
  destruct (Nat.eqb_spec (length bits) ((nkeys + 7) / 8)); cbn [andb]; [|split; discriminate].
  destruct (Nat.eqb_spec (length weights) nkeys); [|split; discriminate].
  destruct (select_safe bits weights nkeys nkeys 0 e e0 eq_refl) as [r Hr]. rewrite Hr. split; discriminate.
Qed.

(* without the length check the read does panic: the defect that was repaired *)
Theorem bits_read_short_bitmap_panics : bits_read [255] 8 = Panic.
Proof. reflexivity. Qed.
