(* Model of pkg/crypto/bls.go Bits.read and of the key-selection loop of BLSVerifyWeightedAggSig /
   BLSVerifyAggSig (repaired: bitmap length must be ceil(len(keys)/8) and len(weights) = len(keys)).
   Every index is nth_error with explicit Panic. *)
From Coq Require Import List NArith Arith Bool.
From LE Require Import Codec.Varint.
Import ListNotations.
Local Open Scope N_scope.

(* (b[i/8] >> (i%8)) % 2 == 1 *)
Definition bits_read (b : list N) (i : nat) : res bool :=
  match nth_error b (i / 8) with
  | None => Panic
  | Some x => Ok (N.odd (x / 2 ^ N.of_nat (i mod 8)))
  end.

(* for i := start; i < start+n; i++ { if bits.read(i) { keys = append(keys, i); weightSum += weights[i] } } *)
Fixpoint select (bits weights : list N) (i n : nat) : res (list nat * N) :=
  match n with
  | O => Ok ([], 0)
  | S m =>
    bind (bits_read bits i) (fun b =>
    if b then
      match nth_error weights i with
      | None => Panic
      | Some w => bind (select bits weights (S i) m) (fun '(ks, s) => Ok (i :: ks, (w + s) mod 2^64))
      end
    else select bits weights (S i) m)
  end.

Definition weighted_precheck (nkeys : nat) (bits weights : list N) : bool :=
  Nat.eqb (length bits) ((nkeys + 7) / 8) && Nat.eqb (length weights) nkeys.

(* Err = "return false" before any cryptography *)
Definition weighted_select (nkeys : nat) (bits weights : list N) : res (list nat * N) :=
  if weighted_precheck nkeys bits weights then select bits weights 0 nkeys else Err ErrInvalidData.
