(* Read-after-write lemmas for every Reader/Writer primitive pair, in an arbitrary context:
   the reader stands at [length pre] in [pre ++ written ++ post]. *)
From Coq Require Import List NArith ZArith Arith Lia Bool.
From Coq Require Import ZifyBool ZifyN ZifyNat.
From LE Require Import Codec.Varint Codec.VarintProofs Codec.Reader Codec.Writer.
Import ListNotations.
Local Open Scope N_scope.

Definition at_ (pre post : list N) (lm : Z) : reader := mkR (pre ++ post) (length pre) lm.

Lemma at_adv : forall pre x post lm, adv (at_ pre (x ++ post) lm) (length x) = at_ (pre ++ x) post lm.
Proof. intros. unfold adv, at_. cbn. rewrite app_assoc, app_length. reflexivity. Qed.

Lemma at_nil : forall d, new_reader d = at_ [] d (Z.of_nat (length d)).
Proof. reflexivity. Qed.

(* sizes that fit Go's int without wrap *)
Definition small (r : reader) : Prop := (Z.of_nat (length (data r)) < 2^62)%Z.

Lemma to_int_small : forall n, n < 2^63 -> to_int n = Z.of_N n.
Proof. intros. unfold to_int. destruct (N.ltb_spec n (2^63)); [reflexivity|lia]. Qed.

Lemma wrap_int_small : forall z, (- 2^63 <= z < 2^63)%Z -> wrap_int z = z.
Proof. intros. unfold wrap_int. rewrite Z.mod_small; lia. Qed.

Lemma to_u64_small : forall z, (0 <= z < 2^64)%Z -> to_u64 z = Z.to_N z.
Proof. intros. unfold to_u64. rewrite Z.mod_small; lia. Qed.

Lemma read_uint_r_at : forall n pre post lm, n < 2^64 ->
  read_uint_r (at_ pre (enc_varint n ++ post) lm) = Ok (n, at_ (pre ++ enc_varint n) post lm).
Proof.
  intros. unfold read_uint_r. cbn [data idx at_].
  rewrite read_uint_at_app, varint_roundtrip by assumption.
  rewrite <- at_adv. reflexivity.
Qed.

Definition wt_ok (wt : N) : Prop := wt = 0 \/ wt = 2.
Definition fn_ok (fn : N) : Prop := 1 <= fn /\ fn < 2^28.

Lemma key_parts : forall fn wt, fn_ok fn -> wt_ok wt ->
  let k := to_int (fn * 8 + wt) in
  (k mod 8 = Z.of_N wt /\ k / 8 = Z.of_N fn)%Z /\ fn * 8 + wt < 2^64.
Proof.
  intros fn wt [H1 H2] Hw. cbn zeta.
  assert (fn * 8 + wt < 2^31) by (destruct Hw; subst; lia).
  rewrite to_int_small by lia.
  destruct Hw; subst; repeat split; try lia.
Qed.

Lemma check_at : forall fn wt pre post lm, fn_ok fn -> wt_ok wt -> (Z.of_nat (length pre) < lm)%Z ->
  check (at_ pre (write_key wt fn ++ post) lm) fn wt = Ok (at_ (pre ++ write_key wt fn) post lm).
Proof.
  intros fn wt pre post lm Hfn Hwt Hl. unfold check. cbn [data idx lim at_].
  destruct (Z.leb_spec lm (Z.of_nat (length pre))); [lia|].
  destruct (key_parts fn wt Hfn Hwt) as [[Hm Hd] Hk].
  unfold write_key. rewrite read_uint_at_app, varint_roundtrip by assumption.
  rewrite Hm, Hd.
  assert (Hw : ((Z.of_N wt =? 0) || (Z.of_N wt =? 2))%Z = true) by (destruct Hwt; subst; reflexivity).
  rewrite Hw, !Z.eqb_refl. cbn [negb].
  change (mkR (pre ++ enc_varint (fn * 8 + wt) ++ post) (length pre) lm) with (at_ pre (enc_varint (fn * 8 + wt) ++ post) lm).
  rewrite at_adv. reflexivity.
Qed.

(* a different field's key (or the end of the message) in front of the reader: check fails with a
   "strict" error, which lenient decoding turns into the default value *)
Definition absent (r : reader) (fn wt : N) : Prop := exists e, check r fn wt = Err e /\ strict_err e = true.

Lemma absent_end : forall r fn wt, (lim r <= Z.of_nat (idx r))%Z -> absent r fn wt.
Proof.
  intros. exists ErrFieldNumberNotFound. split; [|reflexivity]. unfold check.
  destruct (Z.leb_spec (lim r) (Z.of_nat (idx r))); [reflexivity|lia].
Qed.

Lemma absent_other_key : forall fn wt fn' wt' pre post lm, fn_ok fn' -> wt_ok wt' -> fn' <> fn ->
  absent (at_ pre (write_key wt' fn' ++ post) lm) fn wt.
Proof.
  intros fn wt fn' wt' pre post lm Hfn Hwt Hne.
  destruct (Z.leb_spec lm (Z.of_nat (length pre))) as [Hl|Hl]; [apply absent_end; cbn; lia|].
  exists ErrUnexpectedFieldNumber. split; [|reflexivity].
  unfold check. cbn [data idx lim at_].
  destruct (Z.leb_spec lm (Z.of_nat (length pre))); [lia|].
  destruct (key_parts fn' wt' Hfn Hwt) as [[Hm Hd] Hk].
  unfold write_key. rewrite read_uint_at_app, varint_roundtrip by assumption.
  rewrite Hm, Hd.
  assert (Hw : ((Z.of_N wt' =? 0) || (Z.of_N wt' =? 2))%Z = true) by (destruct Hwt; subst; reflexivity).
  rewrite Hw. cbn [negb].
  destruct (Z.eqb_spec (Z.of_N fn') (Z.of_N fn)); [lia|reflexivity].
Qed.

Lemma with_key_present : forall A fn wt strict (dflt : A) body pre post lm,
  fn_ok fn -> wt_ok wt -> (Z.of_nat (length pre) < lm)%Z ->
  with_key (at_ pre (write_key wt fn ++ post) lm) fn wt strict dflt body
  = body (at_ (pre ++ write_key wt fn) post lm).
Proof. intros. unfold with_key. rewrite check_at by assumption. reflexivity. Qed.

Lemma with_key_absent : forall A r fn wt (dflt : A) body, absent r fn wt ->
  with_key r fn wt false dflt body = Ok (dflt, r).
Proof. intros A r fn wt dflt body (e & He & Hs). unfold with_key. rewrite He, Hs. reflexivity. Qed.

(* ---- scalars ---- *)
Lemma zigzag_lt : forall z, (- 2^63 <= z < 2^63)%Z -> zigzag z < 2^64.
Proof. intros. unfold zigzag. destruct (Z.ltb_spec z 0); lia. Qed.

Lemma unzigzag_zigzag : forall z, (- 2^63 <= z < 2^63)%Z -> unzigzag (zigzag z) = z.
Proof.
  intros z Hz. unfold unzigzag, zigzag. destruct (Z.ltb_spec z 0).
  - assert (Z.to_N (-2 * z - 1) mod 2 = 1) by lia.
    destruct (N.eqb_spec (Z.to_N (-2 * z - 1) mod 2) 0); lia.
  - assert (Z.to_N (2 * z) mod 2 = 0) by lia.
    destruct (N.eqb_spec (Z.to_N (2 * z) mod 2) 0); lia.
Qed.

Lemma read_int_r_at : forall z pre post lm, (- 2^63 <= z < 2^63)%Z ->
  read_int_r (at_ pre (write_int z ++ post) lm) = Ok (z, at_ (pre ++ write_int z) post lm).
Proof.
  intros. unfold read_int_r, write_int. rewrite read_uint_r_at by (apply zigzag_lt; assumption).
  cbn [bind]. rewrite unzigzag_zigzag by assumption. reflexivity.
Qed.

Lemma nth_error_at : forall (pre : list N) b post, nth_error (pre ++ b :: post) (length pre) = Some b.
Proof. intros. rewrite nth_error_app2 by lia. rewrite Nat.sub_diag. reflexivity. Qed.

Lemma read_bool_r_at : forall b pre post lm,
  read_bool_r (at_ pre (write_bool b ++ post) lm) = Ok (b, at_ (pre ++ write_bool b) post lm).
Proof.
  intros. unfold read_bool_r, write_bool. cbn [data idx at_ app].
  destruct (Nat.leb_spec (length (pre ++ (if b then 1 else 0) :: post)) (length pre)) as [Hl|Hl].
  { rewrite app_length in Hl. cbn in Hl. lia. }
  rewrite nth_error_at.
  change (mkR (pre ++ (if b then 1 else 0) :: post) (length pre) lm) with (at_ pre ([if b then 1 else 0] ++ post) lm).
  rewrite <- (at_adv pre [if b then 1 else 0] post lm).
  destruct b; reflexivity.
Qed.

Lemma slice_at : forall (pre bs post : list N),
  slice (pre ++ bs ++ post) (Z.of_nat (length pre)) (Z.of_nat (length pre) + Z.of_nat (length bs)) = Ok bs.
Proof.
  intros. unfold slice. rewrite !app_length.
  destruct ((0 <=? Z.of_nat (length pre))%Z && (Z.of_nat (length pre) <=? Z.of_nat (length pre) + Z.of_nat (length bs))%Z &&
            (Z.of_nat (length pre) + Z.of_nat (length bs) <=? Z.of_nat (length pre + (length bs + length post)))%Z) eqn:E; [|lia].
  f_equal. rewrite Nat2Z.id.
  replace (Z.to_nat (Z.of_nat (length pre) + Z.of_nat (length bs) - Z.of_nat (length pre))) with (length bs) by lia.
  rewrite skipn_app, skipn_all, Nat.sub_diag. cbn [skipn app].
  rewrite firstn_app, firstn_all, Nat.sub_diag. cbn [firstn]. apply app_nil_r.
Qed.

Lemma read_bytes_r_at : forall bs pre post lm, (Z.of_nat (length (pre ++ bs ++ post)) < 2^62)%Z ->
  read_bytes_r (at_ pre (write_bytes bs ++ post) lm) = Ok (bs, at_ (pre ++ write_bytes bs) post lm).
Proof.
  intros bs pre post lm Hs. unfold read_bytes_r, write_bytes.
  rewrite !app_length in Hs.
  rewrite <- app_assoc.
  rewrite read_uint_r_at by lia. cbn [bind].
  set (pre' := pre ++ enc_varint (N.of_nat (length bs))).
  cbn [data idx at_].
  assert (Hrem : (Z.of_nat (length (pre' ++ bs ++ post)) - Z.of_nat (length pre') = Z.of_nat (length bs + length post))%Z)
    by (rewrite !app_length; lia).
  rewrite Hrem. rewrite to_u64_small by lia.
  destruct (N.ltb_spec (Z.to_N (Z.of_nat (length bs + length post))) (N.of_nat (length bs))); [lia|].
  rewrite to_int_small by lia.
  destruct (Z.ltb_spec (Z.of_N (N.of_nat (length bs))) 0); [lia|].
  pose proof (enc_varint_length (N.of_nat (length bs))) as [_ Hk].
  assert (Hp : (Z.of_nat (length pre') <= Z.of_nat (length pre) + 10)%Z) by (unfold pre'; rewrite app_length; lia).
  rewrite wrap_int_small by lia.
  replace (Z.of_N (N.of_nat (length bs))) with (Z.of_nat (length bs)) by lia.
  rewrite slice_at. cbn [bind].
  replace (Z.to_nat (Z.of_nat (length bs))) with (length bs) by lia.
  change (mkR (pre' ++ bs ++ post) (length pre') lm) with (at_ pre' (bs ++ post) lm).
  rewrite at_adv. unfold pre'. rewrite <- app_assoc. reflexivity.
Qed.

Section WithStr.
Context (S : strops).
(* the two facts about golang.org/x/text/unicode/norm and unicode/utf8 the theorems rely on *)
Definition str_laws : Prop :=
  (forall s, utf8_valid S s = true -> is_nfc S (nfc_norm S s) = true /\ utf8_valid S (nfc_norm S s) = true) /\
  (forall s, is_nfc S s = true -> nfc_norm S s = s).

Lemma read_string_r_at : forall s pre post lm, (Z.of_nat (length (pre ++ s ++ post)) < 2^62)%Z ->
  utf8_valid S s = true -> is_nfc S s = true ->
  read_string_r S (at_ pre (write_bytes s ++ post) lm) = Ok (s, at_ (pre ++ write_bytes s) post lm).
Proof.
  intros. unfold read_string_r. rewrite read_bytes_r_at by assumption. cbn [bind].
  rewrite H0, H1. reflexivity.
Qed.
End WithStr.

(* ---- keyed scalars: Read*(fn, strict) after Write*(fn, v) ---- *)
Lemma ReadUInt_WriteUInt : forall fn n strict pre post lm, fn_ok fn -> n < 2^64 -> (Z.of_nat (length pre) < lm)%Z ->
  ReadUInt (at_ pre (WriteUInt fn n ++ post) lm) fn strict = Ok (n, at_ (pre ++ WriteUInt fn n) post lm).
Proof.
  intros. unfold ReadUInt, WriteUInt. rewrite <- app_assoc.
  rewrite with_key_present by (auto; left; reflexivity).
  unfold write_uint. rewrite read_uint_r_at by assumption. rewrite <- app_assoc. reflexivity.
Qed.

Lemma ReadUInt32_WriteUInt32 : forall fn n strict pre post lm, fn_ok fn -> n < 2^32 -> (Z.of_nat (length pre) < lm)%Z ->
  ReadUInt32 (at_ pre (WriteUInt32 fn n ++ post) lm) fn strict = Ok (n, at_ (pre ++ WriteUInt32 fn n) post lm).
Proof.
  intros. unfold ReadUInt32, WriteUInt32. rewrite ReadUInt_WriteUInt by (auto; lia). cbn [bind].
  unfold u32. rewrite N.mod_small by assumption. reflexivity.
Qed.

Lemma ReadInt_WriteInt : forall fn z strict pre post lm, fn_ok fn -> (- 2^63 <= z < 2^63)%Z -> (Z.of_nat (length pre) < lm)%Z ->
  ReadInt (at_ pre (WriteInt fn z ++ post) lm) fn strict = Ok (z, at_ (pre ++ WriteInt fn z) post lm).
Proof.
  intros. unfold ReadInt, WriteInt. rewrite <- app_assoc.
  rewrite with_key_present by (auto; left; reflexivity).
  rewrite read_int_r_at by assumption. rewrite <- app_assoc. reflexivity.
Qed.

Lemma i32_small : forall z, (- 2^31 <= z < 2^31)%Z -> i32 z = z.
Proof. intros. unfold i32. rewrite Z.mod_small; lia. Qed.

Lemma ReadInt32_WriteInt32 : forall fn z strict pre post lm, fn_ok fn -> (- 2^31 <= z < 2^31)%Z -> (Z.of_nat (length pre) < lm)%Z ->
  ReadInt32 (at_ pre (WriteInt32 fn z ++ post) lm) fn strict = Ok (z, at_ (pre ++ WriteInt32 fn z) post lm).
Proof.
  intros. unfold ReadInt32, WriteInt32, WriteInt. rewrite <- app_assoc.
  rewrite with_key_present by (auto; left; reflexivity).
  rewrite read_int_r_at by lia. cbn [bind]. rewrite i32_small by assumption. rewrite <- app_assoc. reflexivity.
Qed.

Lemma ReadBool_WriteBool : forall fn b strict pre post lm, fn_ok fn -> (Z.of_nat (length pre) < lm)%Z ->
  ReadBool (at_ pre (WriteBool fn b ++ post) lm) fn strict = Ok (b, at_ (pre ++ WriteBool fn b) post lm).
Proof.
  intros. unfold ReadBool, WriteBool. rewrite <- app_assoc.
  rewrite with_key_present by (auto; left; reflexivity).
  rewrite read_bool_r_at. rewrite <- app_assoc. reflexivity.
Qed.

Lemma ReadBytes_WriteBytes : forall fn bs strict pre post lm, fn_ok fn ->
  (Z.of_nat (length (pre ++ WriteBytes fn bs ++ post)) < 2^62)%Z -> (Z.of_nat (length pre) < lm)%Z ->
  ReadBytes (at_ pre (WriteBytes fn bs ++ post) lm) fn strict = Ok (bs, at_ (pre ++ WriteBytes fn bs) post lm).
Proof.
  intros fn bs strict pre post lm Hfn Hs Hl. unfold ReadBytes, WriteBytes in *. rewrite <- app_assoc.
  rewrite with_key_present by (auto; right; reflexivity).
  rewrite read_bytes_r_at.
  - rewrite <- app_assoc. reflexivity.
  - unfold write_bytes in Hs. rewrite !app_length in *. lia.
Qed.

Lemma ReadString_WriteString : forall S fn s strict pre post lm, fn_ok fn -> str_laws S -> utf8_valid S s = true ->
  (Z.of_nat (length (pre ++ WriteString S fn s ++ post)) < 2^62)%Z -> (Z.of_nat (length pre) < lm)%Z ->
  ReadString S (at_ pre (WriteString S fn s ++ post) lm) fn strict
  = Ok (nfc_norm S s, at_ (pre ++ WriteString S fn s) post lm).
Proof.
  intros S fn s strict pre post lm Hfn [L1 L2] Hu Hs Hl. unfold ReadString, WriteString, WriteBytes in *. rewrite <- app_assoc.
  rewrite with_key_present by (auto; right; reflexivity).
  destruct (L1 s Hu) as [Hn Hv].
  rewrite read_string_r_at; auto.
  - rewrite <- app_assoc. reflexivity.
  - unfold write_bytes in Hs. rewrite !app_length in *. lia.
Qed.

(* ---- packed arrays ---- *)
Lemma packed_loop_at : forall A (elem : reader -> res (A * reader)) (w : A -> list N) (ok : A -> Prop),
  (forall v, ok v -> w v <> []) ->
  (forall v pre post lm, ok v -> elem (at_ pre (w v ++ post) lm) = Ok (v, at_ (pre ++ w v) post lm)) ->
  forall l fuel pre post lm, Forall ok l -> (length l <= fuel)%nat ->
  packed_loop fuel elem (at_ pre (flat_map w l ++ post) lm) (Z.of_nat (length pre) + Z.of_nat (length (flat_map w l)))
  = Ok (l, at_ (pre ++ flat_map w l) post lm).
Proof.
  intros A elem w ok Hne Helem. induction l as [|v l IH]; intros fuel pre post lm Hok Hf.
  - cbn [flat_map app length]. destruct fuel; cbn [packed_loop idx at_];
    (destruct (Z.leb_spec (Z.of_nat (length pre) + Z.of_nat 0) (Z.of_nat (length pre))); [|lia]);
    rewrite app_nil_r; reflexivity.
  - inversion Hok as [|? ? Hv Hl]; subst. cbn [flat_map].
    destruct fuel as [|fuel]; [cbn in Hf; lia|]. cbn [packed_loop idx at_].
    assert (Hlen : (0 < length (w v))%nat) by (specialize (Hne v Hv); destruct (w v); [congruence|cbn; lia]).
    rewrite app_length.
    destruct (Z.leb_spec (Z.of_nat (length pre) + Z.of_nat (length (w v) + length (flat_map w l))) (Z.of_nat (length pre))); [lia|].
    rewrite <- app_assoc. rewrite Helem by assumption. cbn [bind].
    specialize (IH fuel (pre ++ w v) post lm Hl ltac:(cbn in Hf; lia)).
    rewrite app_length in IH.
    replace (Z.of_nat (length pre) + Z.of_nat (length (w v) + length (flat_map w l)))%Z
      with (Z.of_nat (length pre + length (w v)) + Z.of_nat (length (flat_map w l)))%Z by lia.
    rewrite IH. cbn [bind]. rewrite <- app_assoc. reflexivity.
Qed.

Lemma flat_map_length_ge : forall A (w : A -> list N) (ok : A -> Prop), (forall v, ok v -> w v <> []) ->
  forall l, Forall ok l -> (length l <= length (flat_map w l))%nat.
Proof.
  intros A w ok Hne. induction l as [|v l IH]; intros Hok; [cbn; lia|].
  inversion Hok; subst. cbn [flat_map length]. rewrite app_length.
  specialize (Hne v H1). destruct (w v); [congruence|]. cbn [length]. specialize (IH H2). lia.
Qed.

Lemma read_packed_write_packed : forall A (elem : reader -> res (A * reader)) (w : A -> list N) (ok : A -> Prop),
  (forall v, ok v -> w v <> []) ->
  (forall v pre post lm, ok v -> elem (at_ pre (w v ++ post) lm) = Ok (v, at_ (pre ++ w v) post lm)) ->
  forall fn l pre post lm, fn_ok fn -> Forall ok l -> l <> [] ->
  (Z.of_nat (length (pre ++ write_packed w fn l ++ post)) < 2^62)%Z -> (Z.of_nat (length pre) < lm)%Z ->
  read_packed elem (at_ pre (write_packed w fn l ++ post) lm) fn = Ok (l, at_ (pre ++ write_packed w fn l) post lm).
Proof.
  intros A elem w ok Hne Helem fn l pre post lm Hfn Hok Hnil Hs Hl.
  unfold read_packed, write_packed in *. destruct l as [|v0 l0]; [congruence|].
  set (l := v0 :: l0) in *. set (body := flat_map w l) in *.
  rewrite <- app_assoc. rewrite with_key_present by (auto; right; reflexivity).
  unfold write_bytes in *. rewrite <- app_assoc.
  rewrite !app_length in Hs.
  rewrite read_uint_r_at by lia. cbn [bind].
  set (pre' := (pre ++ write_key 2 fn) ++ enc_varint (N.of_nat (length body))).
  cbn [idx at_].
  rewrite to_int_small by lia.
  assert (Hp : (length pre' = length pre + length (write_key 2 fn) + length (enc_varint (N.of_nat (length body))))%nat)
    by (unfold pre'; rewrite !app_length; lia).
  rewrite wrap_int_small by lia.
  replace (Z.of_N (N.of_nat (length body))) with (Z.of_nat (length body)) by lia.
  unfold body. rewrite (packed_loop_at A elem w ok Hne Helem l); auto.
  - unfold pre'. rewrite <- !app_assoc. reflexivity.
  - unfold loop_fuel. cbn [data at_]. rewrite !app_length.
    pose proof (flat_map_length_ge A w ok Hne l Hok). unfold body in *. lia.
Qed.

Lemma read_packed_absent : forall A (elem : reader -> res (A * reader)) r fn, absent r fn 2 ->
  read_packed elem r fn = Ok ([], r).
Proof. intros. unfold read_packed. apply with_key_absent. assumption. Qed.

Lemma enc_varint_nonempty : forall n, enc_varint n <> [].
Proof. intros n H. pose proof (enc_varint_length n). rewrite H in H0. cbn in H0. lia. Qed.

(* ---- repeated (non-packed) fields: BytesArray / Strings / Decodables ---- *)
Lemma flat_map_len_ge : forall A (f : A -> list N) l, (forall v, (1 <= length (f v))%nat) -> (length l <= length (flat_map f l))%nat.
Proof.
  intros A f l Hf. induction l as [|v l IH]; cbn [flat_map length]; [lia|].
  rewrite app_length. specialize (Hf v). lia.
Qed.

Lemma rep_loop_at : forall A B (elem : reader -> res (B * reader)) (w : A -> list N) (g : A -> B) (ok : A -> Prop) fn lm,
  fn_ok fn ->
  (forall v pre post, ok v -> (Z.of_nat (length (pre ++ w v ++ post)) < 2^62)%Z ->
     elem (at_ pre (w v ++ post) lm) = Ok (g v, at_ (pre ++ w v) post lm)) ->
  forall l fuel pre post, Forall ok l -> (length l < fuel)%nat ->
  let W := flat_map (fun v => write_key 2 fn ++ w v) l in
  (Z.of_nat (length (pre ++ W ++ post)) < 2^62)%Z ->
  (Z.of_nat (length pre) + Z.of_nat (length W) <= lm)%Z ->
  absent (at_ (pre ++ W) post lm) fn 2 ->
  rep_loop fuel fn elem (at_ pre (W ++ post) lm) = Ok (map g l, at_ (pre ++ W) post lm).
Proof.
  intros A B elem w g ok fn lm Hfn Helem. induction l as [|v l IH]; intros fuel pre post Hok Hf W Hsm Hlm Habs.
  - subst W. cbn [flat_map app map] in *. rewrite app_nil_r in *.
    destruct fuel; [lia|]. cbn [rep_loop].
    destruct (Z.leb_spec (lim (at_ pre post lm)) (Z.of_nat (idx (at_ pre post lm)))); [reflexivity|].
    destruct Habs as (e & He & Hs). rewrite He, Hs. reflexivity.
  - inversion Hok as [|? ? Hv Hl]; subst. subst W. cbn [flat_map map] in *.
    destruct fuel as [|fuel]; [cbn in Hf; lia|]. cbn [rep_loop idx lim at_].
    pose proof (enc_varint_nonempty (fn * 8 + 2)) as Hk. fold (write_key 2 fn) in Hk.
    assert (0 < length (write_key 2 fn))%nat by (destruct (write_key 2 fn); [congruence|cbn; lia]).
    rewrite !app_length in Hlm.
    destruct (Z.leb_spec lm (Z.of_nat (length pre))); [lia|].
    rewrite <- !app_assoc. rewrite check_at by (auto; try (right; reflexivity); lia).
    rewrite Helem; [|assumption|rewrite !app_length in *; lia]. cbn [bind].
    specialize (IH fuel ((pre ++ write_key 2 fn) ++ w v) post Hl ltac:(cbn in Hf; lia)).
    cbn zeta in IH. rewrite IH.
    + cbn [bind]. rewrite <- !app_assoc. reflexivity.
    + rewrite !app_length in *. lia.
    + rewrite !app_length. lia.
    + rewrite <- !app_assoc in *. exact Habs.
Qed.
