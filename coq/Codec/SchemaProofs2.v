(* Re-encoding stability (IDs): for a well-typed value without nil nested messages, Encode (canon v) = Encode v,
   hence  Decode (Encode v) = Ok v'  implies  Encode v' = Encode v : hashing the re-encoded bytes (NewBlockHeader,
   Transaction.Init) gives the ID of the original bytes. *)
From Coq Require Import String List NArith ZArith Arith Lia Bool.
From LE Require Import Codec.Varint Codec.Reader Codec.Writer Codec.ReaderProofs Codec.Schema Codec.SchemaProofs.
Import ListNotations.
Local Open Scope N_scope.

Section Stable.
Context (S : strops) (E : env).
Hypothesis laws : str_laws S.

Definition full_field (rec : list value -> Prop) (v : value) : Prop :=
  match v with
  | VMsg None => False
  | VMsg (Some nv) => rec nv
  | VMsgs l => Forall rec l
  | _ => True
  end.
Fixpoint full (fuel : nat) (vs : list value) : Prop :=
  match fuel with
  | O => True
  | Datatypes.S f => Forall (full_field (full f)) vs
  end.

Lemma nfc_idem : forall s, utf8_valid S s = true -> nfc_norm S (nfc_norm S s) = nfc_norm S s.
Proof. intros s H. destruct laws as [L1 L2]. apply L2. apply L1. assumption. Qed.

Lemma canon_encode : forall fuel s vs, wt_struct S E fuel s vs -> full fuel vs ->
  encode_struct S E fuel s (canon_struct S E fuel s vs) = encode_struct S E fuel s vs.
Proof.
  induction fuel as [|fuel IH]; intros s vs Hwt Hfull; [reflexivity|].
  cbn [encode_struct canon_struct wt_struct full] in *.
  revert vs Hwt Hfull. induction s as [|[fn ty] s IHs]; intros vs Hwt Hfull.
  - destruct vs; reflexivity.
  - destruct vs as [|v vs]; [contradiction|]. destruct Hwt as [Hv Hrest]. inversion Hfull as [|? ? Fv Frest]; subst.
    cbn [canon_fields encode_fields]. rewrite IHs by assumption. f_equal.
    destruct ty, v; cbn [wt_field] in Hv; try contradiction; cbn [canon_field encode_field]; try reflexivity.
    + (* Str *) unfold WriteString. rewrite nfc_idem by assumption. reflexivity.
    + (* Strs *) unfold WriteStrings. clear Hfull Fv Frest Hrest IHs IH. induction l as [|x l IHl]; [reflexivity|]. inversion Hv; subst.
      cbn [map flat_map]. rewrite IHl by assumption. unfold WriteString. rewrite nfc_idem by assumption. reflexivity.
    + (* Msg *) destruct m as [nv|]; [|contradiction]. destruct Hv as (ns & Hl & Hok).
      cbn [canon_field]. rewrite Hl.
      cbn [encode_field]; try rewrite Hl. cbn [full_field] in Fv. rewrite IH by assumption. reflexivity.
    + (* Msgs *) destruct Hv as (ns & Hl & Hok). rewrite Hl. cbn [encode_field]; try rewrite Hl.
      cbn [full_field] in Fv. clear Hfull Frest Hrest IHs. revert Hok Fv. induction l as [|x l IHl]; intros Hok Fv; [reflexivity|].
      inversion Hok; subst. inversion Fv; subst. cbn [map flat_map]. rewrite IHl by assumption.
      rewrite IH by assumption. reflexivity.
Qed.

Hypothesis HE : forall nm ns, lookup E nm = Some ns -> increasing 0 ns = true.

(* ID stability: decoding an encoding and re-encoding gives the same bytes *)
Theorem reencode_stable : forall fuel s vs v', wt_struct S E fuel s vs -> full fuel vs -> increasing 0 s = true ->
  (Z.of_nat (length (encode_struct S E fuel s vs)) < 2^62)%Z ->
  Decode S E fuel s (encode_struct S E fuel s vs) = Ok v' ->
  encode_struct S E fuel s v' = encode_struct S E fuel s vs.
Proof.
  intros fuel s vs v' Hwt Hfull Hinc Hs Hd.
  rewrite (decode_encode S E laws HE fuel s vs Hwt Hinc Hs) in Hd. inversion Hd; subst.
  apply canon_encode; assumption.
Qed.

(* ---- IDs: ID = hash of the encoding (BlockHeader.Init, Transaction.Init); the hash is arbitrary ---- *)
Variable hash : list N -> list N.
Definition id_of (fuel : nat) (s : schema) (vs : list value) : list N := hash (encode_struct S E fuel s vs).

(* DataAccess stores Encode v; getBlockHeaderFrom decodes the stored bytes leniently and sets ID := hash(stored bytes);
   NewBlockHeader / Init recompute ID := hash(Encode(decoded)).  All of these agree with the ID before storing. *)
Theorem id_stable_store_load : forall fuel s vs, wt_struct S E fuel s vs -> full fuel vs -> increasing 0 s = true ->
  (Z.of_nat (length (encode_struct S E fuel s vs)) < 2^62)%Z ->
  let stored := encode_struct S E fuel s vs in
  exists v', Decode S E fuel s stored = Ok v' /\
             id_of fuel s v' = id_of fuel s vs /\         (* ID after Init() of the loaded value *)
             encode_struct S E fuel s v' = stored.        (* storing it again writes the same bytes *)
Proof.
  intros fuel s vs Hwt Hfull Hinc Hs stored.
  exists (canon_struct S E fuel s vs). split; [apply decode_encode; auto|].
  assert (Hc : encode_struct S E fuel s (canon_struct S E fuel s vs) = stored) by (apply canon_encode; assumption).
  split; [unfold id_of; rewrite Hc; reflexivity|exact Hc].
Qed.

(* transactions are loaded with NewTransaction = DecodeStrict, then ID := hash(Encode(decoded)) *)
Theorem id_stable_store_load_strict : forall fuel s vs, wt_struct S E (Datatypes.S fuel) s vs -> full (Datatypes.S fuel) vs ->
  Forall not_nil vs -> increasing 0 s = true ->
  (Z.of_nat (length (encode_struct S E (Datatypes.S fuel) s vs)) < 2^62)%Z ->
  let stored := encode_struct S E (Datatypes.S fuel) s vs in
  exists v', DecodeStrict S E (Datatypes.S fuel) s stored = Ok v' /\
             id_of (Datatypes.S fuel) s v' = id_of (Datatypes.S fuel) s vs /\
             encode_struct S E (Datatypes.S fuel) s v' = stored.
Proof.
  intros fuel s vs Hwt Hfull Hnn Hinc Hs stored.
  exists (canon_struct S E (Datatypes.S fuel) s vs). split; [apply decode_strict_encode; auto|].
  assert (Hc : encode_struct S E (Datatypes.S fuel) s (canon_struct S E (Datatypes.S fuel) s vs) = stored) by (apply canon_encode; assumption).
  split; [unfold id_of; rewrite Hc; reflexivity|exact Hc].
Qed.

(* "encoding is deterministic": Encode is a function of the value, and more: two well-typed values without nil nested messages
   that are equal up to the canonical form (NFC normalisation of strings) have the same encoding, hence the same ID *)
Theorem encode_deterministic : forall fuel s v1 v2, wt_struct S E fuel s v1 -> wt_struct S E fuel s v2 ->
  full fuel v1 -> full fuel v2 -> canon_struct S E fuel s v1 = canon_struct S E fuel s v2 ->
  encode_struct S E fuel s v1 = encode_struct S E fuel s v2 /\ id_of fuel s v1 = id_of fuel s v2.
Proof.
  intros fuel s v1 v2 W1 W2 F1 F2 Hc.
  assert (Heq : encode_struct S E fuel s v1 = encode_struct S E fuel s v2).
  { rewrite <- (canon_encode fuel s v1 W1 F1), <- (canon_encode fuel s v2 W2 F2), Hc. reflexivity. }
  split; [exact Heq|unfold id_of; rewrite Heq; reflexivity].
Qed.

End Stable.
