(* Model of pkg/codec/reader.go (Reader and every Read* primitive) and key.go readKey.
   Faithful to the code at the commits "fix: bounds check in codec Reader.readBool" and
   "fix: zig-zag decoding of math.MinInt64": the strict flag, the exact error precedence, the
   [end] / [len(data)] asymmetry of nested readers (check() looks at [end], readUint / readBytes /
   readBool look at [len(data)]), Go's int(uint64) conversions with two's-complement wrap.
   Every slice index / slice expression goes through [nth_error] / [slice] and yields [Panic] when it
   would be out of range in Go; loops carry fuel and yield [OutOfFuel] when it runs out. *)
From Coq Require Import List NArith ZArith Arith Bool.
From LE Require Import Codec.Varint.
Import ListNotations.
Local Open Scope N_scope.

(* external string functions: unicode/utf8.Valid, norm.NFC.IsNormal, norm.NFC.String (on bytes) *)
Record strops := { utf8_valid : list N -> bool; is_nfc : list N -> bool; nfc_norm : list N -> list N }.

(* Go conversions on a 64-bit platform *)
Definition to_int (n : N) : Z := if n <? 2^63 then Z.of_N n else (Z.of_N n - 2^64)%Z.   (* int(uint64) *)
Definition wrap_int (z : Z) : Z := ((z + 2^63) mod 2^64 - 2^63)%Z.                     (* int + int *)
Definition to_u64 (z : Z) : N := Z.to_N (z mod 2^64).                                  (* uint64(int) *)

Record reader := mkR { data : list N; idx : nat; lim : Z }.   (* lim = Reader.end *)
Definition new_reader (d : list N) : reader := mkR d 0 (Z.of_nat (length d)).
Definition adv (r : reader) (k : nat) : reader := mkR (data r) (idx r + k) (lim r).
Definition has_unread (r : reader) : bool := negb (Z.of_nat (idx r) =? lim r)%Z.

Definition strict_err (e : err) : bool :=
  match e with ErrFieldNumberNotFound | ErrUnexpectedFieldNumber => true | _ => false end.

(* Reader.check: Ok r' = (true, nil) with the key consumed; there is no (false, nil) outcome *)
Definition check (r : reader) (fn wt : N) : res reader :=
  if (lim r <=? Z.of_nat (idx r))%Z then Err ErrFieldNumberNotFound else
  match read_uint_at (data r) (idx r) with
  | Ok (key, size) =>
    let k := to_int key in
    let w := (k mod 8)%Z in                                   (* val & 7 *)
    if negb ((w =? 0) || (w =? 2))%Z then Err ErrInvalidData else
    if negb (k / 8 =? Z.of_N fn)%Z then Err ErrUnexpectedFieldNumber else   (* val >> 3 *)
    if negb (w =? Z.of_N wt)%Z then Err ErrInvalidData else Ok (adv r size)
  | Err e => Err e
  | Panic => Panic
  | OutOfFuel => OutOfFuel
  end.

(* the common prologue of every Read*(fieldNumber, strict): methods without a strict parameter behave
   as strict = false *)
Definition with_key {A} (r : reader) (fn wt : N) (strict : bool) (dflt : A)
           (body : reader -> res (A * reader)) : res (A * reader) :=
  match check r fn wt with
  | Ok r1 => body r1
  | Err e => if strict_err e then (if strict then Err e else Ok (dflt, r)) else Err e
  | Panic => Panic
  | OutOfFuel => OutOfFuel
  end.

Definition read_uint_r (r : reader) : res (N * reader) :=
  match read_uint_at (data r) (idx r) with
  | Ok (v, size) => Ok (v, adv r size)
  | Err e => Err e
  | Panic => Panic
  | OutOfFuel => OutOfFuel
  end.

(* readInt (repaired): even -> res/2, odd -> -(res/2) - 1 *)
Definition unzigzag (u : N) : Z := if (u mod 2 =? 0) then Z.of_N (u / 2) else (- Z.of_N (u / 2) - 1)%Z.
Definition read_int_r (r : reader) : res (Z * reader) :=
  bind (read_uint_r r) (fun '(u, r1) => Ok (unzigzag u, r1)).

(* readBool (repaired: index >= len(data) -> ErrInvalidData) *)
Definition read_bool_r (r : reader) : res (bool * reader) :=
  if (length (data r) <=? idx r)%nat then Err ErrInvalidData else
  match nth_error (data r) (idx r) with
  | None => Panic
  | Some b => if negb ((b =? 0) || (b =? 1)) then Err ErrInvalidData else Ok (negb (b =? 0), adv r 1)
  end.

(* data[lo:hi] *)
Definition slice (d : list N) (lo hi : Z) : res (list N) :=
  if ((0 <=? lo) && (lo <=? hi) && (hi <=? Z.of_nat (length d)))%Z
  then Ok (firstn (Z.to_nat (hi - lo)) (skipn (Z.to_nat lo) d)) else Panic.

Definition read_bytes_r (r : reader) : res (list N * reader) :=
  bind (read_uint_r r) (fun '(size, r1) =>
    let remaining := (Z.of_nat (length (data r1)) - Z.of_nat (idx r1))%Z in
    if to_u64 remaining <? size then Err ErrSize else
    let sz := to_int size in
    if (sz <? 0)%Z then Panic (* make([]byte, negative) *) else
    bind (slice (data r1) (Z.of_nat (idx r1)) (wrap_int (Z.of_nat (idx r1) + sz)))
         (fun bs => Ok (bs, adv r1 (Z.to_nat sz)))).

Section WithStr.
Context (S : strops).

Definition read_string_r (r : reader) : res (list N * reader) :=
  bind (read_bytes_r r) (fun '(bs, r1) =>
    if negb (utf8_valid S bs) then Err ErrUtf8 else
    if negb (is_nfc S bs) then Err ErrNfc else Ok (bs, r1)).

End WithStr.

(* [for r.index < end { v := elem(); result = append(result, v) }] *)
Fixpoint packed_loop {A} (fuel : nat) (elem : reader -> res (A * reader)) (r : reader) (endz : Z)
  : res (list A * reader) :=
  if (endz <=? Z.of_nat (idx r))%Z then Ok ([], r) else
  match fuel with
  | O => OutOfFuel
  | Datatypes.S f =>
    bind (elem r) (fun '(v, r1) =>
    bind (packed_loop f elem r1 endz) (fun '(vs, r2) => Ok (v :: vs, r2)))
  end.

Definition loop_fuel (r : reader) : nat := Datatypes.S (length (data r)).

Definition read_packed {A} (elem : reader -> res (A * reader)) (r : reader) (fn : N) : res (list A * reader) :=
  with_key r fn 2 false [] (fun r1 =>
    bind (read_uint_r r1) (fun '(len, r2) =>
      packed_loop (loop_fuel r) elem r2 (wrap_int (Z.of_nat (idx r2) + to_int len)))).

(* [for r.index < r.end { ok, err := check(fn, 2); ...; v := elem(); append }] — ReadBytesArray, ReadStrings,
   ReadDecodables *)
Fixpoint rep_loop {A} (fuel : nat) (fn : N) (elem : reader -> res (A * reader)) (r : reader)
  : res (list A * reader) :=
  if (lim r <=? Z.of_nat (idx r))%Z then Ok ([], r) else
  match fuel with
  | O => OutOfFuel
  | Datatypes.S f =>
    match check r fn 2 with
    | Ok r1 =>
      bind (elem r1) (fun '(v, r2) =>
      bind (rep_loop f fn elem r2) (fun '(vs, r3) => Ok (v :: vs, r3)))
    | Err e => if strict_err e then Ok ([], r) else Err e
    | Panic => Panic
    | OutOfFuel => OutOfFuel
    end
  end.

Definition u32 (n : N) : N := n mod 2^32.                                     (* uint32(val) *)
Definition i32 (z : Z) : Z := ((z + 2^31) mod 2^32 - 2^31)%Z.                  (* int32(res) *)

(* ---- the exported Read* methods ---- *)
Definition ReadUInt (r : reader) (fn : N) (strict : bool) := with_key r fn 0 strict 0 read_uint_r.
Definition ReadUInt32 (r : reader) (fn : N) (strict : bool) : res (N * reader) :=
  bind (ReadUInt r fn strict) (fun '(v, r1) => Ok (u32 v, r1)).
Definition ReadUInts (r : reader) (fn : N) := read_packed read_uint_r r fn.
Definition ReadUInt32s (r : reader) (fn : N) : res (list N * reader) :=
  bind (read_packed read_uint_r r fn) (fun '(vs, r1) => Ok (map u32 vs, r1)).
Definition ReadInt (r : reader) (fn : N) (strict : bool) := with_key r fn 0 strict 0%Z read_int_r.
Definition ReadInt32 (r : reader) (fn : N) (strict : bool) : res (Z * reader) :=
  with_key r fn 0 strict 0%Z (fun r1 => bind (read_int_r r1) (fun '(z, r2) => Ok (i32 z, r2))).
Definition ReadInts (r : reader) (fn : N) := read_packed read_int_r r fn.
Definition ReadBool (r : reader) (fn : N) (strict : bool) := with_key r fn 0 strict false read_bool_r.
Definition ReadBools (r : reader) (fn : N) := read_packed read_bool_r r fn.
Definition ReadBytes (r : reader) (fn : N) (strict : bool) := with_key r fn 2 strict [] read_bytes_r.
Definition ReadBytesArray (r : reader) (fn : N) := rep_loop (loop_fuel r) fn read_bytes_r r.
Definition ReadString (S : strops) (r : reader) (fn : N) (strict : bool) :=
  with_key r fn 2 strict [] (read_string_r S).
Definition ReadStrings (S : strops) (r : reader) (fn : N) := rep_loop (loop_fuel r) fn (read_string_r S) r.

(* nested reader of ReadDecodable / ReadDecodables: same data, end = index + int(size) (may lie beyond
   len(data) or wrap negative); afterwards the outer reader continues at the nested reader's index *)
Definition nested (r : reader) (size : N) : reader :=
  mkR (data r) (idx r) (wrap_int (Z.of_nat (idx r) + to_int size)).
Definition resume (outer inner : reader) : reader := mkR (data outer) (idx inner) (lim outer).
