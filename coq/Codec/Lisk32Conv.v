(* convertUIntArray regroups bits: number-theoretic specification and the 8 -> 5 -> 8 round trip. *)
From Coq Require Import List NArith Arith Lia Bool.
From LE Require Import Codec.Lisk32.
Import ListNotations.
Local Open Scope N_scope.

(* big-endian value of a digit list in base 2^b *)
Fixpoint val (b : N) (l : list N) : N :=
  match l with [] => 0 | v :: t => v * 2 ^ (b * N.of_nat (length t)) + val b t end.

Lemma val_app : forall b l1 l2, val b (l1 ++ l2) = val b l1 * 2 ^ (b * N.of_nat (length l2)) + val b l2.
Proof.
  intros b l1 l2. induction l1 as [|v t IH]; cbn [app val]; [lia|].
  rewrite IH, app_length, Nat2N.inj_add, N.mul_add_distr_l, N.pow_add_r. lia.
Qed.

Lemma val_lt : forall b l, Forall (fun v => v < 2 ^ b) l -> val b l < 2 ^ (b * N.of_nat (length l)).
Proof.
  intros b l H. induction H as [|v t Hv Ht IH]; cbn [val length]; [cbn; lia|].
  rewrite Nat2N.inj_succ, N.mul_succ_r, N.pow_add_r.
  assert (0 < 2 ^ (b * N.of_nat (length t))) by (apply N.neq_0_lt_0, N.pow_nonzero; discriminate).
  nia.
Qed.

Lemma val_inj : forall b l1 l2, length l1 = length l2 ->
  Forall (fun v => v < 2 ^ b) l1 -> Forall (fun v => v < 2 ^ b) l2 -> val b l1 = val b l2 -> l1 = l2.
Proof.
  intros b l1. induction l1 as [|v1 t1 IH]; intros l2 Hl H1 H2 Hv; destruct l2 as [|v2 t2]; try discriminate; [reflexivity|].
  inversion H1; subst. inversion H2; subst. cbn [val length] in *. injection Hl as Hl. rewrite Hl in Hv.
  pose proof (val_lt b t1 H4) as B1. pose proof (val_lt b t2 H6) as B2. rewrite Hl in B1.
  set (P := 2 ^ (b * N.of_nat (length t2))) in *.
  assert (v1 = v2) by nia. subst. f_equal. apply IH; auto. lia.
Qed.

Lemma mod_split : forall a b1 t, a mod 2 ^ (b1 + t) = (a / 2 ^ b1) mod 2 ^ t * 2 ^ b1 + a mod 2 ^ b1.
Proof.
  intros. rewrite N.pow_add_r. rewrite N.mod_mul_r by (apply N.pow_nonzero; discriminate). lia.
Qed.

(* the inner loop emits the top digits of the low [bits] bits of the accumulator *)
Lemma drain_spec : forall fuel tob acc bits, 0 < tob -> bits < N.of_nat fuel * tob ->
  let '(o, b') := drain fuel tob acc bits in
  b' < tob /\ bits = tob * N.of_nat (length o) + b' /\ Forall (fun v => v < 2 ^ tob) o /\
  acc mod 2 ^ bits = val tob o * 2 ^ b' + acc mod 2 ^ b'.
Proof.
  induction fuel as [|f IH]; intros tob acc bits Ht Hf; [cbn in Hf; lia|].
  cbn [drain]. destruct (N.leb_spec tob bits) as [Hle|Hlt].
  - specialize (IH tob acc (bits - tob) Ht ltac:(lia)).
    destruct (drain f tob acc (bits - tob)) as [o b''].
    destruct IH as (B & L & F & V). cbn [length]. repeat split.
    + assumption.
    + lia.
    + constructor; [apply N.mod_lt, N.pow_nonzero; discriminate|assumption].
    + cbn [val].
      replace bits with ((bits - tob) + tob) at 1 by lia. rewrite mod_split, V.
      replace (bits - tob) with (tob * N.of_nat (length o) + b'') at 2 by lia.
      rewrite N.pow_add_r. lia.
  - cbn [length val]. repeat split; try lia. constructor.
Qed.

Lemma shift_in : forall acc bits fromb v, v < 2 ^ fromb -> bits + fromb <= 64 ->
  ((acc * 2 ^ fromb + v) mod 2 ^ 64) mod 2 ^ (bits + fromb) = (acc mod 2 ^ bits) * 2 ^ fromb + v.
Proof.
  intros acc bits fromb v Hv Hb.
  assert (HF : 2 ^ fromb <> 0) by (apply N.pow_nonzero; discriminate).
  set (X := acc * 2 ^ fromb + v).
  assert (E1 : (X mod 2 ^ 64) mod 2 ^ (bits + fromb) = X mod 2 ^ (bits + fromb)).
  { replace (2 ^ 64) with (2 ^ (bits + fromb) * 2 ^ (64 - (bits + fromb))) by (rewrite <- N.pow_add_r; f_equal; lia).
    set (P := 2 ^ (bits + fromb)). assert (HP : P <> 0) by (apply N.pow_nonzero; discriminate).
    rewrite N.mod_mul_r by (try assumption; apply N.pow_nonzero; discriminate).
    rewrite (N.mul_comm P), N.mod_add by assumption. apply N.mod_mod. assumption. }
  rewrite E1. replace (bits + fromb) with (fromb + bits) by lia. rewrite mod_split.
  unfold X. rewrite N.div_add_l by assumption. rewrite (N.div_small v) by assumption. rewrite N.add_0_r.
  rewrite (N.add_comm (acc * 2 ^ fromb) v), N.mod_add by assumption. rewrite (N.mod_small v) by assumption.
  reflexivity.
Qed.

Lemma conv_spec : forall fromb tob l acc bits, 0 < tob -> 0 < fromb -> tob + fromb <= 16 -> bits < tob ->
  Forall (fun v => v < 2 ^ fromb) l ->
  exists outs b' accf, conv_loop fromb tob l acc bits = Some outs /\ b' < tob /\
    bits + fromb * N.of_nat (length l) = tob * N.of_nat (length outs) + b' /\
    Forall (fun v => v < 2 ^ tob) outs /\
    (acc mod 2 ^ bits) * 2 ^ (fromb * N.of_nat (length l)) + val fromb l = val tob outs * 2 ^ b' + accf mod 2 ^ b'.
Proof.
  intros fromb tob l. induction l as [|v t IH]; intros acc bits Ht Hfr Hsum Hb Hl.
  - exists [], bits, acc. cbn [conv_loop length val]. repeat split; auto; try lia. rewrite N.mul_0_r. cbn. lia.
  - inversion Hl as [|? ? Hv Hrest]; subst. cbn [conv_loop].
    destruct (N.leb_spec (2 ^ fromb) v); [lia|].
    set (acc' := (acc * 2 ^ fromb + v) mod 2 ^ 64).
    pose proof (drain_spec 16 tob acc' (bits + fromb) Ht ltac:(lia)) as D.
    destruct (drain 16 tob acc' (bits + fromb)) as [o b1]. destruct D as (B1 & L1 & F1 & V1).
    destruct (IH acc' b1 Ht Hfr Hsum B1 Hrest) as (outs & b' & accf & E & B' & L' & F' & V').
    exists (o ++ outs), b', accf. rewrite E. repeat split; auto.
    + cbn [length]. rewrite app_length. lia.
    + apply Forall_app. split; assumption.
    + unfold acc' in V1. rewrite shift_in in V1 by (try assumption; lia). fold acc' in V1.
      cbn [val length]. rewrite val_app.
      rewrite Nat2N.inj_succ, N.mul_succ_r, N.pow_add_r.
      set (Pt := 2 ^ (fromb * N.of_nat (length t))) in *.
      replace ((acc mod 2 ^ bits) * (Pt * 2 ^ fromb) + (v * Pt + val fromb t))
        with (((acc mod 2 ^ bits) * 2 ^ fromb + v) * Pt + val fromb t) by lia.
      rewrite V1.
      replace ((val tob o * 2 ^ b1 + acc' mod 2 ^ b1) * Pt + val fromb t)
        with (val tob o * (2 ^ b1 * Pt) + (acc' mod 2 ^ b1 * Pt + val fromb t)) by lia.
      fold acc' in V'. rewrite V'.
      unfold Pt. rewrite <- N.pow_add_r. rewrite L'. rewrite N.pow_add_r. lia.
Qed.

(* 20 bytes -> 32 quintets -> the same 20 bytes *)
Theorem convert_8_5_8 : forall bs, length bs = 20%nat -> Forall (fun v => v < 256) bs ->
  length (convert 8 5 bs) = 32%nat /\ Forall (fun v => v < 32) (convert 8 5 bs) /\
  convert 5 8 (convert 8 5 bs) = bs.
Proof.
  intros bs Hl Hb.
  destruct (conv_spec 8 5 bs 0 0 ltac:(lia) ltac:(lia) ltac:(lia) ltac:(lia) Hb) as (o & b' & af & E & B & L & F & V).
  rewrite Hl in L, V. assert (C1 : convert 8 5 bs = o) by (unfold convert; rewrite E; reflexivity). rewrite C1.
  assert (Ho : length o = 32%nat) by lia. assert (b' = 0) by lia. subst b'.
  cbn [N.pow] in V. rewrite N.mod_1_r in V. rewrite N.mod_1_r, N.mul_0_l, N.add_0_l, N.mul_1_r, N.add_0_r in V.
  split; [assumption|]. split; [exact F|].
  destruct (conv_spec 5 8 o 0 0 ltac:(lia) ltac:(lia) ltac:(lia) ltac:(lia) F) as (o2 & b2 & af2 & E2 & B2 & L2 & F2 & V2).
  rewrite Ho in L2, V2. assert (C2 : convert 5 8 o = o2) by (unfold convert; rewrite E2; reflexivity). rewrite C2.
  assert (Ho2 : length o2 = 20%nat) by lia. assert (b2 = 0) by lia. subst b2.
  cbn [N.pow] in V2. rewrite N.mod_1_r in V2. rewrite N.mod_1_r, N.mul_0_l, N.add_0_l, N.mul_1_r, N.add_0_r in V2.
  apply (val_inj 8); auto; try congruence.
Qed.
