(* Proofs about the varint model: round trip, canonicity (shortest form), index/list agreement, totality. *)
From Coq Require Import List NArith Arith Lia Bool ZArith.
From Coq Require Import ZifyBool ZifyN ZifyNat.
From LE Require Import Codec.Varint.
Import ListNotations.
Local Open Scope N_scope.
Ltac Zify.zify_post_hook ::= Z.div_mod_to_equations.

Lemma enc_length : forall f n, length (enc_fuel f n) = size_fuel f n.
Proof. induction f; intros; simpl; auto. destruct (n <? 128); simpl; auto. Qed.

Lemma pow7 : forall i : nat, 2 ^ (7 * N.of_nat i) = 128 ^ N.of_nat i.
Proof. intros. rewrite N.pow_mul_r. reflexivity. Qed.

Lemma shortest_size_rec : forall n, n < 2^64 -> shortest_size n = size_fuel 10 n.
Proof.
  intros n Hn. unfold shortest_size.
  cbn [size_fuel].
  repeat match goal with
  | |- context [?a <? ?b] => let E := fresh in destruct (N.ltb_spec a b) as [E|E]
  end; try reflexivity; exfalso; lia.
Qed.

Definition p (i : nat) : N := 128 ^ N.of_nat i.
Lemma p0 : p 0 = 1. Proof. reflexivity. Qed.
Lemma pS : forall i, p (S i) = 128 * p i.
Proof. intros. unfold p. rewrite Nat2N.inj_succ, N.pow_succ_r'. reflexivity. Qed.
Lemma p_pos : forall i, 0 < p i.
Proof. intros. unfold p. apply N.neq_0_lt_0. apply N.pow_nonzero. discriminate. Qed.
Lemma p9 : p 9 = 2^63. Proof. reflexivity. Qed.
Lemma p_mono : forall i j, (i <= j)%nat -> p i <= p j.
Proof. intros. unfold p. apply N.pow_le_mono_r; lia. Qed.

(* shortest_size in terms of powers of 128 *)
Lemma shortest_size_spec : forall n i, (i <= 9)%nat -> p i <= n -> n < p (S i) -> n < 2^64 ->
  shortest_size n = S i.
Proof.
  intros n i Hi Hlo Hhi H64.
  do 10 (destruct i as [|i]; [unfold p in *; cbn in Hlo, Hhi; unfold shortest_size;
    repeat match goal with |- context [?a <? ?b] => let E := fresh in destruct (N.ltb_spec a b) as [E|E] end;
    try reflexivity; exfalso; lia|]).
  lia.
Qed.
Lemma shortest_size_small : forall n, n < 128 -> shortest_size n = 1%nat.
Proof. intros. unfold shortest_size. destruct (N.ltb_spec n (2^7)); [reflexivity|exfalso; change (2^7) with 128 in *; lia]. Qed.

Lemma shortest_size_lower : forall n k, shortest_size n = S (S k) -> p (S k) <= n.
Proof.
  intros n k H. unfold shortest_size in H.
  repeat match type of H with context [?a <? ?b] => let E := fresh in destruct (N.ltb_spec a b) as [E|E] end;
  inversion H; subst; unfold p; cbn; lia.
Qed.
Lemma shortest_size_le10 : forall n, (shortest_size n <= 10)%nat.
Proof. intros. unfold shortest_size.
  repeat match goal with |- context [?a <? ?b] => destruct (a <? b) end; lia. Qed.

Theorem read_enc_gen : forall f i acc n rest,
  (f + i = 10)%nat -> acc < p i -> acc + n * p i < 2^64 -> (i = 0%nat \/ 1 <= n) -> n < p f ->
  read_aux f i acc (enc_fuel f n ++ rest) = Ok (acc + n * p i, (i + size_fuel f n)%nat).
Proof.
  induction f as [|f IH]; intros i acc n rest Hfi Hacc Htot Hn Hnf.
  - rewrite p0 in Hnf. assert (n = 0) by lia. subst. destruct Hn; [|lia]. subst. lia.
  - cbn [enc_fuel size_fuel].
    pose proof (p_pos i) as Hpi.
    destruct (N.ltb_spec n 128) as [Hlt|Hge].
    + cbn [app read_aux].
      assert (Hb : (Nat.eqb (S i) 10 && (1 <? n)) = false).
      { destruct (Nat.eqb_spec (S i) 10) as [E|E]; [|reflexivity]. cbn.
        assert (i = 9%nat) by lia. subst i. rewrite p9 in *. apply N.ltb_ge. nia. }
      rewrite Hb. rewrite pow7. fold (p i).
      rewrite (N.mod_small n 128) by lia.
      destruct (N.ltb_spec n 128); [|lia].
      assert (Hs : shortest_size (acc + n * p i) = S i).
      { destruct Hn as [->|Hn1].
        - rewrite p0 in *. apply shortest_size_small. lia.
        - apply shortest_size_spec; try lia; rewrite ?pS; nia. }
      rewrite Hs, Nat.eqb_refl. f_equal. f_equal. lia.
    + cbn [app read_aux].
      set (b := n mod 128 + 128).
      assert (Hi9 : (i < 9)%nat).
      { destruct (Nat.lt_ge_cases i 9); [assumption|]. exfalso.
        assert (p 9 <= p i) by (apply p_mono; lia). rewrite p9 in *. nia. }
      assert (Hb : (Nat.eqb (S i) 10 && (1 <? b)) = false).
      { destruct (Nat.eqb_spec (S i) 10); [lia|reflexivity]. }
      rewrite Hb. rewrite pow7. fold (p i).
      assert (Hbm : b mod 128 = n mod 128).
      { unfold b. rewrite N.add_mod by lia. rewrite N.mod_same by lia. rewrite N.add_0_r.
        rewrite N.mod_mod by lia. rewrite N.mod_mod by lia. reflexivity. }
      rewrite Hbm.
      destruct (N.ltb_spec b 128) as [Hb128|_]; [unfold b in Hb128; lia|].
      assert (Hdm : n = 128 * (n / 128) + n mod 128) by (apply N.div_mod; lia).
      assert (Hmod : n mod 128 < 128) by (apply N.mod_lt; lia).
      rewrite IH.
      * f_equal. f_equal; [rewrite pS; nia | lia].
      * lia.
      * rewrite pS. nia.
      * rewrite pS. nia.
      * right. assert (128 <= 128 * (n/128) + 127) by lia. lia.
      * rewrite pS in Hnf. apply N.div_lt_upper_bound; lia.
Qed.

Theorem varint_roundtrip : forall n rest, n < 2^64 ->
  read_uint (enc_varint n ++ rest) = Ok (n, length (enc_varint n)).
Proof.
  intros n rest Hn. unfold read_uint, enc_varint.
  rewrite read_enc_gen; try lia.
  - rewrite p0, N.mul_1_r, N.add_0_l, enc_length. reflexivity.
  - rewrite p0. lia.
  - rewrite p0. lia.
  - unfold p. cbn. lia.
Qed.


Theorem read_canonical_gen : forall f i acc bs n k,
  (f + i = 10)%nat -> bytes_ok bs -> acc < p i ->
  read_aux f i acc bs = Ok (n, k) ->
  exists m, n = acc + m * p i /\ (i < k)%nat /\ firstn (k - i) bs = enc_fuel f m /\
            k = (i + size_fuel f m)%nat /\ shortest_size n = k /\ n < 2^64 /\ m < p f.
Proof.
  induction f as [|f IH]; intros i acc bs n k Hfi Hok Hacc Hr.
  - cbn in Hr. discriminate.
  - cbn [read_aux] in Hr. destruct bs as [|b tl]; [discriminate|].
    inversion Hok as [|? ? Hb256 Hoktl]; subst.
    pose proof (p_pos i) as Hpi.
    destruct (Nat.eqb (S i) 10 && (1 <? b)) eqn:Hchk; [discriminate|].
    rewrite pow7 in Hr. fold (p i) in Hr.
    destruct (N.ltb_spec b 128) as [Hlt|Hge].
    + rewrite (N.mod_small b 128) in Hr by lia.
      destruct (Nat.eqb_spec (shortest_size (acc + b * p i)) (S i)) as [Hs|Hs]; [|discriminate].
      inversion Hr; subst n k. exists b.
      assert (Hb1 : i = 9%nat -> b <= 1).
      { intros ->. cbn in Hchk. apply N.ltb_ge in Hchk. exact Hchk. }
      assert (G1 : firstn (S i - i) (b :: tl) = enc_fuel (S f) b).
      { replace (S i - i)%nat with 1%nat by lia. cbn [firstn enc_fuel].
        destruct (N.ltb_spec b 128); [reflexivity|lia]. }
      assert (G2 : S i = (i + size_fuel (S f) b)%nat).
      { cbn [size_fuel]. destruct (N.ltb_spec b 128); lia. }
      assert (G3 : acc + b * p i < 2^64).
      { destruct (Nat.eq_dec i 9) as [->|Hne].
        - specialize (Hb1 eq_refl). rewrite p9 in *. nia.
        - assert (Hq : p (S i) <= p 9) by (apply p_mono; lia). rewrite pS in Hq. rewrite p9 in Hq. nia. }
      assert (G4 : b < p (S f)).
      { assert (Hq : p 1 <= p (S f)) by (apply p_mono; lia). change (p 1) with 128 in Hq. lia. }
      repeat split; try assumption; lia.
    + assert (Hi9 : (i < 9)%nat).
      { destruct (Nat.eqb_spec (S i) 10) as [E|E].
        - cbn in Hchk. apply N.ltb_ge in Hchk. lia.
        - lia. }
      apply IH in Hr; try lia; try assumption.
      2:{ rewrite pS. assert (b mod 128 < 128) by (apply N.mod_lt; lia). nia. }
      destruct Hr as (m' & Hn & Hik & Hfirst & Hk & Hs & H64 & Hm').
      assert (Hbm : b mod 128 < 128) by (apply N.mod_lt; lia).
      assert (Hm1 : 1 <= m').
      { destruct k as [|[|k']]; try lia.
        pose proof (shortest_size_lower _ _ Hs) as Hlow.
        assert (Hq : p (S i) <= p (S k')) by (apply p_mono; lia).
        destruct (N.eq_dec m' 0) as [E0|E0]; [|lia]. exfalso. subst m'.
        assert (Hlt' : n < p (S i)) by (rewrite Hn, pS; nia).
        lia. }
      exists (b mod 128 + 128 * m').
      assert (Hbeq : b = b mod 128 + 128).
      { assert (b = 128 * (b / 128) + b mod 128) by (apply N.div_mod; lia).
        assert (b / 128 = 1).
        { apply N.le_antisymm.
          - apply N.lt_succ_r. apply N.div_lt_upper_bound; lia.
          - apply N.div_le_lower_bound; lia. }
        lia. }
      assert (Hge128 : 128 <= b mod 128 + 128 * m') by lia.
      assert (Hmodm : (b mod 128 + 128 * m') mod 128 = b mod 128).
      { rewrite N.add_mod by lia. rewrite N.mod_mod by lia.
        rewrite N.mul_comm, N.mod_mul by lia. rewrite N.add_0_r, N.mod_mod by lia. reflexivity. }
      assert (Hdivm : (b mod 128 + 128 * m') / 128 = m').
      { rewrite N.mul_comm, N.div_add by lia. rewrite N.div_small by lia. lia. }
      assert (G0 : n = acc + (b mod 128 + 128 * m') * p i) by (rewrite Hn, pS; nia).
      assert (G1 : firstn (k - i) (b :: tl) = enc_fuel (S f) (b mod 128 + 128 * m')).
      { replace (k - i)%nat with (S (k - S i)) by lia. cbn [firstn enc_fuel].
        destruct (N.ltb_spec (b mod 128 + 128 * m') 128); [lia|].
        rewrite Hmodm, Hdivm, Hfirst. f_equal. lia. }
      assert (G2 : k = (i + size_fuel (S f) (b mod 128 + 128 * m'))%nat).
      { cbn [size_fuel]. destruct (N.ltb_spec (b mod 128 + 128 * m') 128); [lia|].
        rewrite Hdivm. lia. }
      assert (G4 : b mod 128 + 128 * m' < p (S f)) by (rewrite pS; nia).
      repeat split; try assumption; lia.
Qed.

Theorem varint_canonical : forall bs n k, bytes_ok bs ->
  read_uint bs = Ok (n, k) -> firstn k bs = enc_varint n /\ n < 2^64.
Proof.
  intros bs n k Hok Hr. unfold read_uint in Hr.
  apply read_canonical_gen in Hr; auto; [|rewrite p0; lia].
  destruct Hr as (m & Hn & _ & Hfirst & _ & _ & H64 & _).
  rewrite p0, N.mul_1_r, N.add_0_l in Hn. subst m. rewrite Nat.sub_0_r in Hfirst. auto.
Qed.


(* ---- the index-based Go-shaped function agrees with the list function ---- *)
Lemma read_at_skipn : forall f data off i acc,
  read_at f data off i acc = read_aux f i acc (skipn (off + i) data).
Proof.
  induction f as [|f IH]; intros; cbn [read_at read_aux]; [reflexivity|].
  destruct (Nat.leb_spec (length data) (off + i)) as [Hle|Hlt].
  - rewrite skipn_all2 by lia. reflexivity.
  - destruct (nth_error data (off + i)) as [b|] eqn:Hn.
    2:{ apply nth_error_None in Hn. lia. }
    pose proof (nth_error_split data (off + i) Hn) as (l1 & l2 & Hd & Hl).
    assert (Hs : skipn (off + i) data = b :: l2).
    { rewrite Hd. rewrite <- Hl. rewrite skipn_app, skipn_all, Nat.sub_diag. reflexivity. }
    rewrite Hs.
    assert (Hs2 : skipn (off + S i) data = l2).
    { replace (off + S i)%nat with (S (off + i)) by lia. rewrite Hd, <- Hl.
      replace (l1 ++ b :: l2) with ((l1 ++ [b]) ++ l2) by (rewrite <- app_assoc; reflexivity).
      replace (S (length l1)) with (length (l1 ++ [b])) by (rewrite app_length; cbn; lia).
      rewrite skipn_app, skipn_all, Nat.sub_diag. reflexivity. }
    destruct (Nat.eqb (S i) 10 && (1 <? b)); [reflexivity|].
    destruct (b <? 128); [reflexivity|].
    rewrite IH, Hs2. reflexivity.
Qed.

Lemma read_uint_at_skipn : forall data off, read_uint_at data off = read_uint (skipn off data).
Proof. intros. unfold read_uint_at, read_uint. rewrite read_at_skipn, Nat.add_0_r. reflexivity. Qed.

Lemma read_uint_at_app : forall pre l, read_uint_at (pre ++ l) (length pre) = read_uint l.
Proof. intros. rewrite read_uint_at_skipn, skipn_app, skipn_all, Nat.sub_diag. reflexivity. Qed.

(* ---- totality and size bounds ---- *)
Lemma read_aux_total : forall f i acc bs, read_aux f i acc bs <> Panic /\ read_aux f i acc bs <> OutOfFuel.
Proof.
  induction f as [|f IH]; intros; cbn [read_aux]; [split; discriminate|].
  destruct bs as [|b tl]; [split; discriminate|].
  destruct (Nat.eqb (S i) 10 && (1 <? b)); [split; discriminate|].
  destruct (b <? 128); [|apply IH].
  destruct (Nat.eqb _ _); split; discriminate.
Qed.

Theorem read_uint_at_never_panics : forall data off,
  read_uint_at data off <> Panic /\ read_uint_at data off <> OutOfFuel.
Proof. intros. rewrite read_uint_at_skipn. apply read_aux_total. Qed.

Lemma read_aux_size : forall f i acc bs n k, read_aux f i acc bs = Ok (n, k) ->
  (i < k)%nat /\ (k <= i + f)%nat /\ (k - i <= length bs)%nat.
Proof.
  induction f as [|f IH]; intros i acc bs n k H; cbn [read_aux] in H; [discriminate|].
  destruct bs as [|b tl]; [discriminate|].
  destruct (Nat.eqb (S i) 10 && (1 <? b)); [discriminate|].
  destruct (b <? 128).
  - destruct (Nat.eqb _ _); [|discriminate]. inversion H; subst. cbn [length]. lia.
  - apply IH in H. cbn [length]. lia.
Qed.

Lemma read_uint_size : forall bs n k, read_uint bs = Ok (n, k) -> (1 <= k)%nat /\ (k <= 10)%nat /\ (k <= length bs)%nat.
Proof. intros bs n k H. apply read_aux_size in H. lia. Qed.

Lemma enc_varint_length : forall n, (1 <= length (enc_varint n))%nat /\ (length (enc_varint n) <= 10)%nat.
Proof.
  intros. unfold enc_varint. rewrite enc_length. cbn [size_fuel].
  repeat match goal with |- context [?a <? ?b] => destruct (a <? b) end; lia.
Qed.

Lemma enc_fuel_bytes_ok : forall f n, bytes_ok (enc_fuel f n).
Proof.
  induction f as [|f IH]; intros; cbn [enc_fuel]; [constructor|].
  destruct (N.ltb_spec n 128).
  - constructor; [lia|constructor].
  - constructor; [|apply IH]. assert (n mod 128 < 128) by (apply N.mod_lt; lia). lia.
Qed.
Lemma enc_varint_bytes_ok : forall n, bytes_ok (enc_varint n).
Proof. intros. apply enc_fuel_bytes_ok. Qed.

(* an encoding is determined by its value: no two distinct byte strings are accepted for one number *)
Theorem varint_injective : forall bs1 bs2 n k1 k2, bytes_ok bs1 -> bytes_ok bs2 ->
  read_uint bs1 = Ok (n, k1) -> read_uint bs2 = Ok (n, k2) -> k1 = k2 /\ firstn k1 bs1 = firstn k2 bs2.
Proof.
  intros bs1 bs2 n k1 k2 H1 H2 R1 R2.
  pose proof (read_uint_size _ _ _ R1) as S1. pose proof (read_uint_size _ _ _ R2) as S2.
  apply varint_canonical in R1; auto. apply varint_canonical in R2; auto.
  destruct R1 as [F1 _], R2 as [F2 _].
  assert (length (firstn k1 bs1) = length (firstn k2 bs2)) by (rewrite F1, F2; reflexivity).
  rewrite !firstn_length in H. split; [lia|congruence].
Qed.
