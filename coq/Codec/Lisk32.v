(* Model of pkg/codec/bytes.go Lisk32: convertUIntArray, polymod, createChecksum, BytesToLisk32, Lisk32ToBytes,
   ValidateLisk32 (repaired: the "lsk" prefix is checked).  Text is the list of its bytes; the rune loop of
   ValidateLisk32 rejects every non-charset rune, and a byte >= 0x80 is never part of a charset rune, so the
   byte-wise reading below has the same accept/reject behaviour and the same error class.
   Go's int accumulator is modelled modulo 2^64 (only bits below fromBits+toBits are ever read). *)
From Coq Require Import List NArith Arith Bool.
Import ListNotations.
Local Open Scope N_scope.

Inductive l32err := L32Size | L32Prefix | L32Char | L32Checksum.
Inductive l32res (A : Type) := L32Ok (a : A) | L32Err (e : l32err).
Arguments L32Ok {A}. Arguments L32Err {A}.

(* "zxvcpmbn3465o978uyrtkqew2adsjhfg" *)
Definition charset : list N :=
  [122;120;118;99;112;109;98;110;51;52;54;53;111;57;55;56;117;121;114;116;107;113;101;119;50;97;100;115;106;104;102;103].
Definition generator : list N := [0x3b6a57b2; 0x26508e6d; 0x1ea119fa; 0x3d4233dd; 0x2a1462b3].

Fixpoint index_of (c : N) (l : list N) (i : N) : option N :=
  match l with [] => None | x :: t => if x =? c then Some i else index_of c t (i + 1) end.

(* for bits >= toBits { bits -= toBits; result = append(result, (accumulator>>bits)&maxValue) } *)
Fixpoint drain (fuel : nat) (tob acc bits : N) : list N * N :=
  match fuel with
  | O => ([], bits)
  | S f => if tob <=? bits then
             let b' := bits - tob in
             let '(o, b'') := drain f tob acc b' in ((acc / 2 ^ b') mod 2 ^ tob :: o, b'')
           else ([], bits)
  end.

Fixpoint conv_loop (fromb tob : N) (l : list N) (acc bits : N) : option (list N) :=
  match l with
  | [] => Some []
  | v :: t =>
    if 2 ^ fromb <=? v then None else
    let acc' := (acc * 2 ^ fromb + v) mod 2 ^ 64 in
    let '(o, b') := drain 16 tob acc' (bits + fromb) in
    match conv_loop fromb tob t acc' b' with Some r => Some (o ++ r) | None => None end
  end.
(* an out-of-range value makes the Go function return an empty slice *)
Definition convert (fromb tob : N) (l : list N) : list N :=
  match conv_loop fromb tob l 0 0 with Some r => r | None => [] end.

Definition poly_step (chk value : N) : N :=
  let top := chk / 2 ^ 25 in
  let c0 := N.lxor ((chk mod 2 ^ 25) * 32) value in
  fold_left (fun c p => if N.testbit top (fst p) then N.lxor c (snd p) else c)
            (combine [0; 1; 2; 3; 4] generator) c0.
Definition polymod (l : list N) : N := fold_left poly_step l 1.

Definition create_checksum (u5 : list N) : list N :=
  let m := N.lxor (polymod (u5 ++ [0; 0; 0; 0; 0; 0])) 1 in
  map (fun p => (m / 2 ^ (5 * (5 - p))) mod 32) [0; 1; 2; 3; 4; 5].

Definition lsk : list N := [108; 115; 107].

Definition bytes_to_lisk32 (bs : list N) : l32res (list N) :=
  match bs with
  | [] => L32Ok []
  | _ => if negb (Nat.eqb (length bs) 20) then L32Err L32Size else
         let u5 := convert 8 5 bs in
         L32Ok (lsk ++ map (fun v => nth (N.to_nat v) charset 0) (u5 ++ create_checksum u5))
  end.

Fixpoint indices (l : list N) : option (list N) :=
  match l with
  | [] => Some []
  | c :: t => match index_of c charset 0, indices t with Some i, Some r => Some (i :: r) | _, _ => None end
  end.

Fixpoint list_eqb (a b : list N) : bool :=
  match a, b with [], [] => true | x :: a', y :: b' => (x =? y) && list_eqb a' b' | _, _ => false end.

Definition validate_lisk32 (t : list N) : option l32err :=
  if negb (Nat.eqb (length t) 41) then Some L32Size else
  if negb (list_eqb (firstn 3 t) lsk) then Some L32Prefix else
  match indices (skipn 3 t) with
  | None => Some L32Char
  | Some u5 => if polymod u5 =? 1 then None else Some L32Checksum
  end.

Definition lisk32_to_bytes (t : list N) : l32res (list N) :=
  match t with
  | [] => L32Ok []
  | _ => match validate_lisk32 t with
         | Some e => L32Err e
         | None => match indices (firstn 32 (skipn 3 t)) with
                   | Some u5 => L32Ok (convert 5 8 u5)
                   | None => L32Err L32Char
                   end
         end
  end.
