(* Lisk32: bytes -> text -> bytes and text -> bytes -> text are lossless; a text whose checksum does not verify is
   rejected (by definition of validate_lisk32: polymod <> 1 -> L32Checksum). *)
From Coq Require Import List NArith Arith Lia Bool.
From LE Require Import Codec.Lisk32 Codec.Lisk32Conv Codec.Lisk32Poly.
Import ListNotations.
Local Open Scope N_scope.

Definition chr (v : N) : N := nth (N.to_nat v) charset 0.

Lemma index_chr : forall v, v < 32 -> index_of (chr v) charset 0 = Some v.
Proof.
  intros v Hv. rewrite <- (N2Nat.id v). assert (Hn : (N.to_nat v < 32)%nat) by lia.
  generalize dependent (N.to_nat v). clear. intros n Hn. unfold chr. rewrite Nat2N.id.
  do 32 (destruct n as [|n]; [reflexivity|]). lia.
Qed.

Lemma chr_index : forall c i, index_of c charset 0 = Some i -> i < 32 /\ chr i = c.
Proof.
  intros c i H. unfold charset in H. cbn [index_of] in H.
  repeat match type of H with
  | (if ?x =? c then _ else _) = _ => destruct (N.eqb_spec x c) as [<-|_]; [inversion H; subst; split; [reflexivity|reflexivity]|]
  end.
  discriminate.
Qed.

Lemma indices_map_chr : forall l, Forall (fun v => v < 32) l -> indices (map chr l) = Some l.
Proof.
  induction l as [|v l IH]; intros H; [reflexivity|]. inversion H; subst. cbn [map indices].
  rewrite index_chr by assumption. rewrite IH by assumption. reflexivity.
Qed.

Lemma indices_inv : forall t l, indices t = Some l -> Forall (fun v => v < 32) l /\ t = map chr l.
Proof.
  induction t as [|c t IH]; intros l H; cbn [indices] in H.
  - inversion H; subst. split; [constructor|reflexivity].
  - destruct (index_of c charset 0) as [i|] eqn:E; [|discriminate].
    destruct (indices t) as [r|] eqn:R; [|discriminate]. inversion H; subst.
    destruct (IH r eq_refl) as [F T]. destruct (chr_index c i E) as [Hi Hc].
    split; [constructor; assumption|]. cbn [map]. rewrite Hc, <- T. reflexivity.
Qed.

Lemma list_eqb_refl : forall l, list_eqb l l = true.
Proof. induction l; cbn; [reflexivity|]. rewrite N.eqb_refl. assumption. Qed.
Lemma list_eqb_eq : forall a b, list_eqb a b = true -> a = b.
Proof.
  induction a as [|x a IH]; destruct b as [|y b]; cbn; intros H; try discriminate; [reflexivity|].
  apply andb_prop in H. destruct H as [H1 H2]. apply N.eqb_eq in H1. subst. f_equal. apply IH. assumption.
Qed.

Lemma to_bytes_of_text : forall u5 ck, length u5 = 32%nat -> Forall (fun v => v < 32) u5 ->
  length ck = 6%nat -> Forall (fun v => v < 32) ck -> polymod (u5 ++ ck) = 1 ->
  lisk32_to_bytes (lsk ++ map chr (u5 ++ ck)) = L32Ok (convert 5 8 u5).
Proof.
  intros u5 ck L5 F5 Lc Fc Hp.
  set (X := map chr (u5 ++ ck)).
  assert (LX : length X = 38%nat) by (unfold X; rewrite map_length, app_length, L5, Lc; reflexivity).
  change (lsk ++ X) with (108 :: 115 :: 107 :: X).
  unfold lisk32_to_bytes, validate_lisk32.
  assert (E1 : length (108 :: 115 :: 107 :: X) = 41%nat) by (cbn [length]; rewrite LX; reflexivity).
  rewrite E1. cbn [Nat.eqb negb].
  change (firstn 3 (108 :: 115 :: 107 :: X)) with lsk. rewrite list_eqb_refl. cbn [negb].
  change (skipn 3 (108 :: 115 :: 107 :: X)) with X.
  unfold X at 1. rewrite indices_map_chr by (apply Forall_app; split; assumption).
  rewrite Hp. rewrite N.eqb_refl.
  unfold X. rewrite map_app, firstn_app, map_length, L5. replace (32 - 32)%nat with 0%nat by reflexivity.
  rewrite firstn_O, app_nil_r.
  rewrite firstn_all2 by (rewrite map_length; lia).
  rewrite indices_map_chr by assumption. reflexivity.
Qed.

Theorem bytes_text_bytes : forall bs, length bs = 20%nat -> Forall (fun v => v < 256) bs ->
  exists t, bytes_to_lisk32 bs = L32Ok t /\ length t = 41%nat /\ firstn 3 t = lsk /\ lisk32_to_bytes t = L32Ok bs.
Proof.
  intros bs Hl Hb. destruct (convert_8_5_8 bs Hl Hb) as (L5 & F5 & RT).
  destruct (checksum_digits (convert 8 5 bs)) as [Lc Fc].
  exists (lsk ++ map chr (convert 8 5 bs ++ create_checksum (convert 8 5 bs))). split; [|split; [|split]].
  - unfold bytes_to_lisk32. destruct bs as [|b0 bs']; [discriminate|]. rewrite Hl. reflexivity.
  - rewrite app_length, map_length, app_length, L5, Lc. reflexivity.
  - reflexivity.
  - rewrite to_bytes_of_text; auto. + rewrite RT. reflexivity. + apply checksum_valid. assumption.
Qed.

(* the other direction of the bit regrouping *)
Lemma convert_5_8_5 : forall u5, length u5 = 32%nat -> Forall (fun v => v < 32) u5 ->
  length (convert 5 8 u5) = 20%nat /\ Forall (fun v => v < 256) (convert 5 8 u5) /\ convert 8 5 (convert 5 8 u5) = u5.
Proof.
  intros u5 Hl Hb.
  destruct (conv_spec 5 8 u5 0 0 ltac:(lia) ltac:(lia) ltac:(lia) ltac:(lia) Hb) as (o & b' & af & E & B & L & F & V).
  rewrite Hl in L, V. assert (C1 : convert 5 8 u5 = o) by (unfold convert; rewrite E; reflexivity). rewrite C1.
  assert (Ho : length o = 20%nat) by lia. assert (b' = 0) by lia. subst b'.
  cbn [N.pow] in V. rewrite N.mod_1_r in V. rewrite N.mod_1_r, N.mul_0_l, N.add_0_l, N.mul_1_r, N.add_0_r in V.
  split; [assumption|]. split; [exact F|].
  destruct (conv_spec 8 5 o 0 0 ltac:(lia) ltac:(lia) ltac:(lia) ltac:(lia) F) as (o2 & b2 & af2 & E2 & B2 & L2 & F2 & V2).
  rewrite Ho in L2, V2. assert (C2 : convert 8 5 o = o2) by (unfold convert; rewrite E2; reflexivity). rewrite C2.
  assert (Ho2 : length o2 = 32%nat) by lia. assert (b2 = 0) by lia. subst b2.
  cbn [N.pow] in V2. rewrite N.mod_1_r in V2. rewrite N.mod_1_r, N.mul_0_l, N.add_0_l, N.mul_1_r, N.add_0_r in V2.
  apply (val_inj 5); auto; try congruence.
Qed.

(* a 6-digit suffix that makes polymod = 1 is the checksum *)
Lemma checksum_unique : forall u5 ck, Forall (fun v => v < 32) u5 -> length ck = 6%nat -> Forall (fun v => v < 32) ck ->
  polymod (u5 ++ ck) = 1 -> ck = create_checksum u5.
Proof.
  intros u5 ck Hu Hl Hc Hp. destruct (checksum_digits u5) as [Lc Fc].
  apply (val_inj 5); [congruence|assumption|assumption|].
  rewrite polymod_digits in Hp by (try assumption; lia). rewrite Hl in Hp. cbn [repeat] in Hp.
  set (s6 := polymod (u5 ++ [0; 0; 0; 0; 0; 0])) in *.
  assert (Hs : s6 < 2 ^ 30) by (apply polymod_lt; apply Forall_app; split; [assumption|repeat constructor]).
  unfold create_checksum. fold s6. rewrite digits_val by (apply lxor_lt_pow2; [assumption|reflexivity]).
  (* val ck = s6 xor 1 *)
  rewrite <- Hp. rewrite <- N.lxor_assoc, N.lxor_nilpotent, N.lxor_0_l. reflexivity.
Qed.

Theorem text_bytes_text : forall t bs, t <> [] -> lisk32_to_bytes t = L32Ok bs ->
  length bs = 20%nat /\ bytes_to_lisk32 bs = L32Ok t.
Proof.
  intros t bs Hne H. unfold lisk32_to_bytes in H.
  assert (H' : match validate_lisk32 t with
               | Some e => L32Err e
               | None => match indices (firstn 32 (skipn 3 t)) with Some u5 => L32Ok (convert 5 8 u5) | None => L32Err L32Char end
               end = L32Ok bs) by (destruct t; [congruence|exact H]).
  clear H. unfold validate_lisk32 in H'.
  destruct (Nat.eqb_spec (length t) 41) as [Hl|]; cbn [negb] in H'; [|discriminate].
  destruct (list_eqb (firstn 3 t) lsk) eqn:Hp; cbn [negb] in H'; [|discriminate]. apply list_eqb_eq in Hp.
  destruct (indices (skipn 3 t)) as [idx|] eqn:Hi; [|discriminate].
  destruct (N.eqb_spec (polymod idx) 1) as [Hpm|]; [|discriminate].
  destruct (indices (firstn 32 (skipn 3 t))) as [u5|] eqn:Hu; [|discriminate]. inversion H'; subst bs. clear H'.
  destruct (indices_inv _ _ Hi) as [Fi Ti].
  assert (Lidx : length idx = 38%nat).
  { assert (E : length (skipn 3 t) = 38%nat) by (rewrite skipn_length; lia). rewrite Ti, map_length in E. assumption. }
  rewrite <- (firstn_skipn 32 idx) in Fi. apply Forall_app in Fi. destruct Fi as [F1 F2].
  assert (Eu : u5 = firstn 32 idx).
  { rewrite Ti, firstn_map in Hu. rewrite indices_map_chr in Hu by assumption. congruence. }
  assert (L5 : length u5 = 32%nat) by (rewrite Eu, firstn_length; lia).
  assert (Lc : length (skipn 32 idx) = 6%nat) by (rewrite skipn_length; lia).
  assert (Eidx : idx = u5 ++ skipn 32 idx) by (rewrite Eu; symmetry; apply firstn_skipn).
  rewrite <- Eu in F1.
  assert (Eck : skipn 32 idx = create_checksum u5).
  { apply checksum_unique; auto. rewrite <- Eidx. assumption. }
  destruct (convert_5_8_5 u5 L5 F1) as (Lb & Fb & RT).
  split; [assumption|].
  unfold bytes_to_lisk32. destruct (convert 5 8 u5) as [|b0 bs'] eqn:Eb; [discriminate|]. rewrite <- Eb in *.
  rewrite Lb. cbn [Nat.eqb negb]. rewrite RT. change (fun v : N => nth (N.to_nat v) charset 0) with chr.
  rewrite <- Eck, <- Eidx, <- Ti, <- Hp. rewrite firstn_skipn. reflexivity.
Qed.

(* a text whose checksum does not verify is rejected *)
Theorem bad_checksum_rejected : forall t idx, length t = 41%nat -> firstn 3 t = lsk ->
  indices (skipn 3 t) = Some idx -> polymod idx <> 1 -> lisk32_to_bytes t = L32Err L32Checksum.
Proof.
  intros t idx Hl Hp Hi Hc. unfold lisk32_to_bytes. destruct t as [|t0 t']; [discriminate|].
  unfold validate_lisk32. rewrite Hl, Hp, list_eqb_refl, Hi. cbn [Nat.eqb negb].
  destruct (N.eqb_spec (polymod idx) 1); [contradiction|reflexivity].
Qed.
