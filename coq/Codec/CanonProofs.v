(* Strict decoding of a flat schema (no nested messages, no packed arrays, no 32-bit fields) accepts only the
   canonical byte string:  DecodeStrict s d = Ok v  ->  d = Encode s v.   Instantiated for Transaction in
   Properties/C08.v: the transaction ID (hash of the re-encoding) is the hash of exactly the accepted bytes. *)
From Coq Require Import String List NArith ZArith Arith Lia Bool.
From Coq Require Import ZifyBool ZifyN ZifyNat.
From LE Require Import Codec.Varint Codec.VarintProofs Codec.Reader Codec.Writer Codec.ReaderProofs Codec.Schema
                       Codec.TotalProofs.
Import ListNotations.
Local Open Scope N_scope.

Lemma skipn_add : forall A (l : list A) n m, skipn (n + m) l = skipn m (skipn n l).
Proof. intros A l n. revert l. induction n as [|n IH]; intros l m; [reflexivity|]. destruct l; [destruct m; reflexivity|]. cbn. apply IH. Qed.

(* r' is r advanced over exactly the bytes [bs] *)
Definition seg (r r' : reader) (bs : list N) : Prop :=
  data r' = data r /\ lim r' = lim r /\ idx r' = (idx r + length bs)%nat /\
  exists tl, skipn (idx r) (data r) = bs ++ tl.

Lemma seg_refl : forall r, seg r r [].
Proof. intros. unfold seg. cbn. repeat split; try lia. eexists; reflexivity. Qed.

Lemma seg_trans : forall r r1 r2 a b, seg r r1 a -> seg r1 r2 b -> seg r r2 (a ++ b).
Proof.
  intros r r1 r2 a b (D1 & L1 & I1 & t1 & S1) (D2 & L2 & I2 & t2 & S2).
  unfold seg. rewrite app_length. repeat split; try congruence; try lia.
  exists t2. rewrite D1, I1 in S2. rewrite skipn_add, S1 in S2.
  rewrite skipn_app, skipn_all, Nat.sub_diag in S2. cbn in S2. rewrite S1, S2, app_assoc. reflexivity.
Qed.

Lemma seg_rinv : forall r r' bs, rinv r -> seg r r' bs -> rinv r'.
Proof.
  intros r r' bs [Hi Hs] (D & L & I & t & Sk). unfold rinv. rewrite D. split; [|assumption].
  assert (length (skipn (idx r) (data r)) = length (bs ++ t)) by congruence.
  rewrite skipn_length, app_length in H. lia.
Qed.

Definition bok (r : reader) : Prop := bytes_ok (data r).

Lemma read_uint_r_canon : forall r n r', bok r -> read_uint_r r = Ok (n, r') -> seg r r' (enc_varint n) /\ n < 2^64.
Proof.
  intros r n r' Hb H. unfold read_uint_r in H.
  destruct (read_uint_at (data r) (idx r)) as [[v k]| | |] eqn:E; try discriminate. inversion H; subst.
  pose proof E as E2. rewrite read_uint_at_skipn in E2. pose proof (read_uint_size _ _ _ E2) as (K1 & K2 & K3).
  assert (Hsub : bytes_ok (skipn (idx r) (data r))).
  { unfold bok, bytes_ok in *. rewrite Forall_forall in *. intros x Hx. apply Hb.
    rewrite <- (firstn_skipn (idx r) (data r)). apply in_or_app. right. exact Hx. }
  apply varint_canonical in E2; auto. destruct E2 as [F Hn]. split; [|assumption].
  unfold seg, adv. cbn [data idx lim].
  assert (Hl : length (enc_varint n) = k) by (rewrite <- F, firstn_length; lia).
  repeat split; try lia.
  exists (skipn k (skipn (idx r) (data r))). rewrite <- F. symmetry. apply firstn_skipn.
Qed.

Lemma key_inv : forall key fn wt, key < 2^64 -> fn_ok fn -> wt_ok wt ->
  (to_int key mod 8 = Z.of_N wt)%Z -> (to_int key / 8 = Z.of_N fn)%Z -> key = fn * 8 + wt.
Proof.
  intros key fn wt Hk [F1 F2] Hw Hm Hd. unfold to_int in *.
  destruct (N.ltb_spec key (2^63)); destruct Hw; subst; lia.
Qed.

Lemma check_canon : forall r fn wt r', bok r -> fn_ok fn -> wt_ok wt -> check r fn wt = Ok r' ->
  seg r r' (write_key wt fn).
Proof.
  intros r fn wt r' Hb Hfn Hwt H. unfold check in H.
  destruct (lim r <=? Z.of_nat (idx r))%Z; [discriminate|].
  destruct (read_uint_at (data r) (idx r)) as [[key k]| | |] eqn:E; try discriminate.
  assert (Hu : read_uint_r r = Ok (key, adv r k)) by (unfold read_uint_r; rewrite E; reflexivity).
  apply read_uint_r_canon in Hu; auto. destruct Hu as [Hseg Hk].
  destruct (negb _) eqn:W1; [discriminate|].
  destruct (Z.eqb_spec (to_int key / 8) (Z.of_N fn)); cbn [negb] in H; [|discriminate].
  destruct (Z.eqb_spec (to_int key mod 8) (Z.of_N wt)); cbn [negb] in H; [|discriminate].
  inversion H; subst. unfold write_key. rewrite <- (key_inv key fn wt); auto.
Qed.

Lemma with_key_strict_inv : forall A r fn wt (dflt : A) body v r',
  with_key r fn wt true dflt body = Ok (v, r') -> exists r1, check r fn wt = Ok r1 /\ body r1 = Ok (v, r').
Proof.
  intros A r fn wt dflt body v r' H. unfold with_key in H.
  destruct (check r fn wt) as [r1|e| |]; try discriminate.
  - exists r1. auto.
  - destruct (strict_err e); discriminate.
Qed.

Lemma read_bool_r_canon : forall r b r', read_bool_r r = Ok (b, r') -> seg r r' (write_bool b).
Proof.
  intros r b r' H. unfold read_bool_r in H.
  destruct (Nat.leb_spec (length (data r)) (idx r)); [discriminate|].
  destruct (nth_error (data r) (idx r)) as [x|] eqn:E; [|discriminate].
  destruct (N.eqb_spec x 0), (N.eqb_spec x 1); cbn in H; try discriminate; inversion H; subst;
    (unfold seg, adv; cbn [data idx lim write_bool length]; repeat split; try lia;
     destruct (nth_error_split _ _ E) as (l1 & l2 & Hd & Hl); exists l2; rewrite Hd, <- Hl;
     rewrite skipn_app, skipn_all, Nat.sub_diag; reflexivity).
Qed.

Lemma zigzag_unzigzag : forall u, u < 2^64 -> zigzag (unzigzag u) = u /\ (- 2^63 <= unzigzag u < 2^63)%Z.
Proof.
  intros u Hu. unfold zigzag, unzigzag.
  destruct (N.eqb_spec (u mod 2) 0).
  - destruct (Z.ltb_spec (Z.of_N (u / 2)) 0); lia.
  - destruct (Z.ltb_spec (- Z.of_N (u / 2) - 1) 0); lia.
Qed.

Lemma read_int_r_canon : forall r z r', bok r -> read_int_r r = Ok (z, r') -> seg r r' (write_int z).
Proof.
  intros r z r' Hb H. unfold read_int_r in H.
  destruct (read_uint_r r) as [[u r1]| | |] eqn:E; try discriminate. cbn in H. inversion H; subst.
  apply read_uint_r_canon in E; auto. destruct E as [Hs Hu].
  unfold write_int. rewrite (proj1 (zigzag_unzigzag u Hu)). assumption.
Qed.

Lemma read_bytes_r_canon : forall r bs r', bok r -> rinv r -> read_bytes_r r = Ok (bs, r') -> seg r r' (write_bytes bs).
Proof.
  intros r bs r' Hb Hr H. unfold read_bytes_r in H.
  destruct (read_uint_r r) as [[size r1]| | |] eqn:E; try discriminate. cbn [bind] in H.
  apply read_uint_r_canon in E; auto. destruct E as [Hs Hu].
  pose proof (seg_rinv _ _ _ Hr Hs) as [Hi1 Hs1].
  unfold to_u64 in H. rewrite Z.mod_small in H by lia.
  destruct (N.ltb_spec (Z.to_N (Z.of_nat (length (data r1)) - Z.of_nat (idx r1))) size); [discriminate|].
  unfold to_int in H. destruct (N.ltb_spec size (2^63)); [|lia].
  destruct (Z.ltb_spec (Z.of_N size) 0); [lia|].
  unfold wrap_int in H. rewrite Z.mod_small in H by lia.
  unfold slice in H.
  destruct ((0 <=? Z.of_nat (idx r1))%Z && (Z.of_nat (idx r1) <=? Z.of_nat (idx r1) + Z.of_N size + 2 ^ 63 - 2 ^ 63)%Z &&
            (Z.of_nat (idx r1) + Z.of_N size + 2 ^ 63 - 2 ^ 63 <=? Z.of_nat (length (data r1)))%Z) eqn:Eg; [|discriminate].
  cbn [bind] in H.
  match type of H with context [firstn (Z.to_nat ?x) (skipn (Z.to_nat ?y) _)] =>
    replace (Z.to_nat x) with (N.to_nat size) in H by lia; replace (Z.to_nat y) with (idx r1) in H by lia end.
  replace (Z.to_nat (Z.of_N size)) with (N.to_nat size) in H by lia.
  inversion H; subst. clear H.
  set (bs := firstn (N.to_nat size) (skipn (idx r1) (data r1))).
  assert (Hlen : length bs = N.to_nat size).
  { unfold bs. rewrite firstn_length, skipn_length. lia. }
  unfold write_bytes. replace (N.of_nat (length bs)) with size by lia.
  eapply seg_trans; [exact Hs|].
  unfold seg, adv. cbn [data idx lim]. repeat split; try lia.
  exists (skipn (N.to_nat size) (skipn (idx r1) (data r1))). unfold bs. symmetry. apply firstn_skipn.
Qed.

Section Flat.
Context (S : strops) (E : env).
Hypothesis laws : str_laws S.

Lemma read_string_r_canon : forall r bs r', bok r -> rinv r -> read_string_r S r = Ok (bs, r') ->
  seg r r' (write_bytes (nfc_norm S bs)).
Proof.
  intros r bs r' Hb Hr H. unfold read_string_r in H.
  destruct (read_bytes_r r) as [[b r1]| | |] eqn:Eb; try discriminate. cbn [bind] in H.
  destruct (utf8_valid S b); cbn [negb] in H; [|discriminate].
  destruct (is_nfc S b) eqn:N; cbn [negb] in H; [|discriminate]. inversion H; subst.
  destruct laws as [_ L2]. rewrite L2 by assumption. eapply read_bytes_r_canon; eauto.
Qed.

(* repeated length-delimited fields *)
Lemma rep_loop_canon : forall A (elem : reader -> res (A * reader)) (w : A -> list N) fn,
  fn_ok fn ->
  (forall r1 v r2, bok r1 -> rinv r1 -> elem r1 = Ok (v, r2) -> seg r1 r2 (w v)) ->
  forall fuel r l r', bok r -> rinv r -> rep_loop fuel fn elem r = Ok (l, r') ->
  seg r r' (flat_map (fun v => write_key 2 fn ++ w v) l).
Proof.
  intros A elem w fn Hfn He. induction fuel as [|fuel IH]; intros r l r' Hb Hr H; cbn [rep_loop] in H.
  - destruct (lim r <=? Z.of_nat (idx r))%Z; [|discriminate]. inversion H; subst. apply seg_refl.
  - destruct (lim r <=? Z.of_nat (idx r))%Z; [inversion H; subst; apply seg_refl|].
    destruct (check r fn 2) as [r1|e| |] eqn:C; try discriminate.
    + apply check_canon in C; auto; [|right; reflexivity].
      pose proof (seg_rinv _ _ _ Hr C) as Hr1.
      assert (Hb1 : bok r1) by (unfold bok in *; destruct C as (D & _); rewrite D; assumption).
      destruct (elem r1) as [[v r2]| | |] eqn:El; try discriminate. cbn [bind] in H.
      apply He in El; auto. pose proof (seg_rinv _ _ _ Hr1 El) as Hr2.
      assert (Hb2 : bok r2) by (unfold bok in *; destruct El as (D & _); rewrite D; assumption).
      destruct (rep_loop fuel fn elem r2) as [[vs r3]| | |] eqn:Rl; try discriminate. cbn [bind] in H.
      inversion H; subst. apply IH in Rl; auto.
      cbn [flat_map]. rewrite <- app_assoc. eapply seg_trans; [exact C|]. eapply seg_trans; [exact El|exact Rl].
    + destruct (strict_err e); [|discriminate]. inversion H; subst. apply seg_refl.
Qed.

Notation ef := (encode_field S E (fun _ _ => [])).

Lemma decode_field_canon : forall dec fn ty r v r', flat_canon_ty ty = true -> fn_ok fn -> bok r -> rinv r ->
  decode_field S E dec true fn ty r = Ok (v, r') -> seg r r' (ef fn ty v).
Proof.
  intros dec fn ty r v r' Hf Hfn Hb Hr H.
  destruct ty; cbn [flat_canon_ty] in Hf; try discriminate; cbn [decode_field] in H; unfold lift in H.
  - (* Bool *) destruct (ReadBool r fn true) as [[b r1]| | |] eqn:R; try discriminate. cbn in H. inversion H; subst.
    unfold ReadBool in R. apply with_key_strict_inv in R. destruct R as (r0 & C & B).
    apply check_canon in C; auto; [|left; reflexivity]. apply read_bool_r_canon in B.
    cbn [encode_field]. unfold WriteBool. eapply seg_trans; eauto.
  - (* U64 *) destruct (ReadUInt r fn true) as [[n r1]| | |] eqn:R; try discriminate. cbn in H. inversion H; subst.
    unfold ReadUInt in R. apply with_key_strict_inv in R. destruct R as (r0 & C & B).
    apply check_canon in C; auto; [|left; reflexivity].
    apply read_uint_r_canon in B; [|unfold bok in *; destruct C as (D & _); rewrite D; assumption].
    cbn [encode_field]. unfold WriteUInt, write_uint. eapply seg_trans; [exact C|apply B].
  - (* I64 *) destruct (ReadInt r fn true) as [[n r1]| | |] eqn:R; try discriminate. cbn in H. inversion H; subst.
    unfold ReadInt in R. apply with_key_strict_inv in R. destruct R as (r0 & C & B).
    apply check_canon in C; auto; [|left; reflexivity].
    apply read_int_r_canon in B; [|unfold bok in *; destruct C as (D & _); rewrite D; assumption].
    cbn [encode_field]. unfold WriteInt. eapply seg_trans; eauto.
  - (* Str *) destruct (ReadString S r fn true) as [[n r1]| | |] eqn:R; try discriminate. cbn in H. inversion H; subst.
    unfold ReadString in R. apply with_key_strict_inv in R. destruct R as (r0 & C & B).
    apply check_canon in C; auto; [|right; reflexivity].
    apply read_string_r_canon in B; [|unfold bok in *; destruct C as (D & _); rewrite D; assumption|eapply seg_rinv; eauto].
    cbn [encode_field]. unfold WriteString, WriteBytes. eapply seg_trans; eauto.
  - (* Bytes *) destruct (ReadBytes r fn true) as [[n r1]| | |] eqn:R; try discriminate. cbn in H. inversion H; subst.
    unfold ReadBytes in R. apply with_key_strict_inv in R. destruct R as (r0 & C & B).
    apply check_canon in C; auto; [|right; reflexivity].
    apply read_bytes_r_canon in B; [|unfold bok in *; destruct C as (D & _); rewrite D; assumption|eapply seg_rinv; eauto].
    cbn [encode_field]. unfold WriteBytes. eapply seg_trans; eauto.
  - (* BytesArr *) destruct (ReadBytesArray r fn) as [[l r1]| | |] eqn:R; try discriminate. cbn in H. inversion H; subst.
    unfold ReadBytesArray in R. cbn [encode_field]. unfold WriteBytesArray, WriteBytes.
    eapply (rep_loop_canon _ read_bytes_r write_bytes); eauto.
    intros. eapply read_bytes_r_canon; eauto.
  - (* Strs *) destruct (ReadStrings S r fn) as [[l r1]| | |] eqn:R; try discriminate. cbn in H. inversion H; subst.
    unfold ReadStrings in R. cbn [encode_field]. unfold WriteStrings, WriteString, WriteBytes.
    eapply (rep_loop_canon _ (read_string_r S) (fun s => write_bytes (nfc_norm S s))); eauto.
    intros. eapply read_string_r_canon; eauto.
Qed.

Lemma decode_fields_canon : forall dec s prev r vs r', flat_canon s = true -> increasing prev s = true ->
  bok r -> rinv r -> decode_fields (decode_field S E dec true) s r = Ok (vs, r') ->
  seg r r' (encode_fields ef s vs).
Proof.
  intros dec. induction s as [|[fn ty] s IHs]; intros prev r vs r' Hf Hinc Hb Hr H; cbn [decode_fields] in H.
  - inversion H; subst. apply seg_refl.
  - cbn [flat_canon forallb snd] in Hf. apply andb_prop in Hf. destruct Hf as [Hty Hf].
    cbn [increasing] in Hinc. apply andb_prop in Hinc. destruct Hinc as [Hinc Hinc']. apply andb_prop in Hinc. destruct Hinc as [_ Hfnb].
    assert (Hfn : fn_ok fn) by (unfold fn_okb, fn_ok in *; lia).
    destruct (decode_field S E dec true fn ty r) as [[v r1]| | |] eqn:F; try discriminate. cbn [bind] in H.
    apply decode_field_canon in F; auto.
    destruct (decode_fields (decode_field S E dec true) s r1) as [[vs' r2]| | |] eqn:R; try discriminate.
    cbn [bind] in H. inversion H; subst.
    apply (IHs fn) in R; auto.
    + cbn [encode_fields]. eapply seg_trans; eauto.
    + unfold bok in *. destruct F as (D & _). rewrite D. assumption.
    + eapply seg_rinv; eauto.
Qed.

(* for flat schemas the nested encoder is never consulted *)
Lemma encode_fields_flat : forall rec s vs, flat_canon s = true ->
  encode_fields (encode_field S E rec) s vs = encode_fields ef s vs.
Proof.
  intros rec. induction s as [|[fn ty] s IHs]; intros vs Hf; [reflexivity|].
  destruct vs as [|v vs]; [reflexivity|]. cbn [flat_canon forallb snd] in Hf. apply andb_prop in Hf. destruct Hf as [Hty Hf].
  cbn [encode_fields]. rewrite IHs by assumption. f_equal.
  destruct ty; cbn in Hty; try discriminate; destruct v; reflexivity.
Qed.

Theorem strict_accepts_only_canonical : forall fuel s d vs,
  flat_canon s = true -> increasing 0 s = true -> bytes_ok d -> (Z.of_nat (length d) < 2^62)%Z ->
  DecodeStrict S E (Datatypes.S fuel) s d = Ok vs -> d = encode_struct S E (Datatypes.S fuel) s vs.
Proof.
  intros fuel s d vs Hf Hinc Hb Hs H. unfold DecodeStrict in H. cbn [decode_struct] in H.
  destruct (decode_fields (decode_field S E (decode_struct S E fuel false) true) s (new_reader d)) as [[v r]| | |] eqn:R;
    try discriminate. cbn [bind] in H.
  destruct (has_unread r) eqn:U; [discriminate|]. inversion H; subst.
  apply (decode_fields_canon _ s 0) in R; auto; [|apply rinv_new; assumption].
  cbn [encode_struct]. rewrite encode_fields_flat by assumption.
  destruct R as (D & L & I & tl & Sk). cbn [new_reader data idx lim skipn] in *.
  unfold has_unread in U. rewrite L in U. apply negb_false_iff in U. apply Z.eqb_eq in U.
  assert (Hlen : length d = length (encode_fields ef s vs ++ tl)) by congruence.
  rewrite app_length in Hlen. assert (length tl = 0)%nat by lia. destruct tl; [|discriminate].
  rewrite app_nil_r in Sk. assumption.
Qed.

End Flat.
