(* Concrete string functions used when the codec model is *evaluated* on correspondence cases (the theorems
   stay parametric in [strops]).  UTF-8 validity is unicode/utf8.Valid exactly.  NFC is decided only on the
   fragment the harness generates: every code point < U+0300 is NFC-inert (so the string is normal and its
   normalisation is itself), plus a small table of non-normal strings with their normal forms; any other
   string is "unknown" and [is_nfc] answers the parameter [unk] — the evaluators run the model with both
   answers and skip the case when the outcome depends on it. *)
From Coq Require Import List NArith Bool.
From LE Require Import Codec.Varint Codec.Reader.
Import ListNotations.
Local Open Scope N_scope.

Definition cont (b : N) : bool := (0x80 <=? b) && (b <=? 0xBF).
Definition rng (b lo hi : N) : bool := (lo <=? b) && (b <=? hi).

Fixpoint utf8_valid_c (bs : list N) : bool :=
  match bs with
  | [] => true
  | b0 :: t =>
    if b0 <? 0x80 then utf8_valid_c t else
    if b0 <? 0xC2 then false else
    if b0 <? 0xE0 then
      match t with b1 :: t1 => cont b1 && utf8_valid_c t1 | _ => false end else
    if b0 <? 0xF0 then
      match t with
      | b1 :: b2 :: t2 =>
        (if b0 =? 0xE0 then rng b1 0xA0 0xBF else if b0 =? 0xED then rng b1 0x80 0x9F else cont b1)
        && cont b2 && utf8_valid_c t2
      | _ => false
      end else
    if b0 <? 0xF5 then
      match t with
      | b1 :: b2 :: b3 :: t3 =>
        (if b0 =? 0xF0 then rng b1 0x90 0xBF else if b0 =? 0xF4 then rng b1 0x80 0x8F else cont b1)
        && cont b2 && cont b3 && utf8_valid_c t3
      | _ => false
      end
    else false
  end.

Fixpoint list_eqb (a b : list N) : bool :=
  match a, b with
  | [], [] => true
  | x :: a', y :: b' => (x =? y) && list_eqb a' b'
  | _, _ => false
  end.

(* non-normal string, its NFC form *)
Definition nfc_table : list (list N * list N) :=
  [ ([0x65; 0xCC; 0x81], [0xC3; 0xA9]);          (* e + U+0301 -> U+00E9 *)
    ([0x41; 0xCC; 0x8A], [0xC3; 0x85]);          (* A + U+030A -> U+00C5 *)
    ([0xE2; 0x84; 0xAB], [0xC3; 0x85]);          (* U+212B ANGSTROM SIGN -> U+00C5 *)
    ([0x61; 0x62; 0x6F; 0xCC; 0x88], [0x61; 0x62; 0xC3; 0xB6]);  (* "abo" + U+0308 -> "ab" U+00F6 *)
    ([0x78; 0xCC; 0x81; 0xCC; 0xA3], [0x78; 0xCC; 0xA3; 0xCC; 0x81]);  (* x U+0301 U+0323 -> x U+0323 U+0301 (reordering) *)
    ([0xE1; 0x84; 0x80; 0xE1; 0x85; 0xA1], [0xEA; 0xB0; 0x80]) ].       (* Hangul U+1100 U+1161 -> U+AC00 *)

(* strings that ARE in NFC although they contain runes whose NFC quick-check value is "Maybe" (combining marks that do not
   compose with their base, lone Hangul jamo), and the normal forms of the table entries above *)
Definition nfc_normal : list (list N) :=
  [ [0x71; 0xCC; 0x81];                          (* q U+0301 *)
    [0x78; 0xCC; 0xA3; 0xCC; 0x81];              (* x U+0323 U+0301 *)
    [0x61; 0xCC; 0xB8];                          (* a U+0338 *)
    [0xE1; 0x85; 0xA1];                          (* U+1161 lone jungseong *)
    [0xE1; 0x86; 0xA8];                          (* U+11A8 lone jongseong *)
    [0xEA; 0xB0; 0x80] ].                        (* U+AC00 *)
Definition in_normal (bs : list N) : bool := existsb (fun k => list_eqb k bs) nfc_normal.

Fixpoint lookup (k : list N) (t : list (list N * list N)) : option (list N) :=
  match t with [] => None | (a, b) :: t' => if list_eqb a k then Some b else lookup k t' end.

Definition has_high (bs : list N) : bool := existsb (fun b => 0xCC <=? b) bs.

Definition is_nfc_c (unk : bool) (bs : list N) : bool :=
  match lookup bs nfc_table with
  | Some _ => false
  | None => if in_normal bs then true else if has_high bs then unk else true
  end.
Definition nfc_norm_c (bs : list N) : list N :=
  match lookup bs nfc_table with Some n => n | None => bs end.

Definition corr_strops (unk : bool) : strops :=
  {| utf8_valid := utf8_valid_c; is_nfc := is_nfc_c unk; nfc_norm := nfc_norm_c |}.
