(* Generic round-trip theorems for the generated codec, for EVERY struct environment whose schemas have
   strictly increasing field numbers in 1..2^28-1:  Decode (Encode v) = canon v,  DecodeStrict (Encode v) = canon v
   when no top-level nested message is nil, and Encode (canon v) is what re-encoding the decoded value gives. *)
From Coq Require Import String List NArith ZArith Arith Lia Bool.
From Coq Require Import ZifyBool ZifyN ZifyNat.
From LE Require Import Codec.Varint Codec.VarintProofs Codec.Reader Codec.Writer Codec.ReaderProofs Codec.Schema.
Import ListNotations.
Local Open Scope N_scope.

Section RT.
Context (S : strops) (E : env).
Hypothesis laws : str_laws S.
Hypothesis HE : forall nm ns, lookup E nm = Some ns -> increasing 0 ns = true.

(* ---- well-typed values: ranges of the Go types, valid UTF-8 strings, nested names resolve ---- *)
Definition wt_field (rec_ok : schema -> list value -> Prop) (ty : ftype) (v : value) : Prop :=
  match ty, v with
  | TBool, VBool _ => True
  | TU32, VU n => n < 2^32
  | TU64, VU n => n < 2^64
  | TI32, VI z => (- 2^31 <= z < 2^31)%Z
  | TI64, VI z => (- 2^63 <= z < 2^63)%Z
  | TStr, VBytes s => utf8_valid S s = true
  | TBytes, VBytes _ => True
  | TBytesArr, VBytesL _ => True
  | TStrs, VBytesL l => Forall (fun s => utf8_valid S s = true) l
  | TBools, VBools _ => True
  | TU32s, VUs l => Forall (fun n => n < 2^32) l
  | TU64s, VUs l => Forall (fun n => n < 2^64) l
  | TMsg nm, VMsg None => exists ns, lookup E nm = Some ns
  | TMsg nm, VMsg (Some nv) => exists ns, lookup E nm = Some ns /\ rec_ok ns nv
  | TMsgs nm, VMsgs l => exists ns, lookup E nm = Some ns /\ Forall (rec_ok ns) l
  | _, _ => False
  end.
Fixpoint wt_fields (wf : ftype -> value -> Prop) (s : schema) (vs : list value) : Prop :=
  match s, vs with
  | [], [] => True
  | (_, ty) :: s', v :: vs' => wf ty v /\ wt_fields wf s' vs'
  | _, _ => False
  end.
Fixpoint wt_struct (fuel : nat) (s : schema) (vs : list value) : Prop :=
  match fuel with
  | O => False
  | Datatypes.S f => wt_fields (wt_field (wt_struct f)) s vs
  end.

Definition not_nil (v : value) : Prop := match v with VMsg None => False | _ => True end.

(* round trip of one nesting level, in any context *)
Definition RT (enc : schema -> list value -> list N) (dec : schema -> reader -> res (list value * reader))
           (can : schema -> list value -> list value) (ok : schema -> list value -> Prop) : Prop :=
  forall ns nv pre post, ok ns nv -> increasing 0 ns = true ->
    (Z.of_nat (length (pre ++ enc ns nv ++ post)) < 2^62)%Z ->
    let lm := (Z.of_nat (length pre) + Z.of_nat (length (enc ns nv)))%Z in
    dec ns (at_ pre (enc ns nv ++ post) lm) = Ok (can ns nv, at_ (pre ++ enc ns nv) post lm).

Lemma write_key_len : forall wt fn, (1 <= length (write_key wt fn))%nat.
Proof. intros. unfold write_key. apply enc_varint_length. Qed.

Section Level.
Variables (enc : schema -> list value -> list N) (dec : schema -> reader -> res (list value * reader))
          (can : schema -> list value -> list value) (ok : schema -> list value -> Prop).
Hypothesis IH : RT enc dec can ok.

Lemma read_nested_at : forall ns nv pre post lm, ok ns nv -> increasing 0 ns = true ->
  (Z.of_nat (length (pre ++ write_bytes (enc ns nv) ++ post)) < 2^62)%Z ->
  read_nested dec ns (at_ pre (write_bytes (enc ns nv) ++ post) lm)
  = Ok (can ns nv, at_ (pre ++ write_bytes (enc ns nv)) post lm).
Proof.
  intros ns nv pre post lm Hok Hinc Hs. unfold read_nested, write_bytes in *.
  rewrite !app_length in Hs. rewrite <- app_assoc.
  rewrite read_uint_r_at by lia. cbn [bind].
  set (e := enc ns nv) in *. set (pre' := pre ++ enc_varint (N.of_nat (length e))).
  assert (Hn : nested (at_ pre' (e ++ post) lm) (N.of_nat (length e))
               = at_ pre' (e ++ post) (Z.of_nat (length pre') + Z.of_nat (length e))).
  { unfold nested, at_. cbn [data idx]. f_equal.
    rewrite to_int_small by lia. unfold pre'. rewrite app_length.
    rewrite wrap_int_small by lia. lia. }
  rewrite Hn. unfold e. rewrite IH; auto.
  - cbn [bind]. unfold resume, at_. cbn [data idx lim]. f_equal. f_equal.
    unfold pre'. rewrite <- !app_assoc. reflexivity.
  - fold e. unfold pre'. rewrite !app_length. lia.
Qed.

(* what an encoded field starts with *)
Lemma field_head : forall fn ty v,
  encode_field S E enc fn ty v = [] \/
  exists wt tail, wt_ok wt /\ encode_field S E enc fn ty v = write_key wt fn ++ tail.
Proof.
  intros fn ty v.
  destruct ty, v; cbn [encode_field]; try (left; reflexivity);
    try (right; eexists _, _; split; [|unfold WriteBool, WriteUInt32, WriteUInt, WriteInt32, WriteInt, WriteString, WriteBytes; reflexivity];
         (left; reflexivity) || (right; reflexivity)).
  - (* BytesArr *) destruct l; [left; reflexivity|]. right. cbn [WriteBytesArray flat_map]. unfold WriteBytes.
    eexists 2, _. split; [right; reflexivity|]. rewrite <- app_assoc. reflexivity.
  - (* Strs *) destruct l; [left; reflexivity|]. right. cbn [WriteStrings flat_map]. unfold WriteString, WriteBytes.
    eexists 2, _. split; [right; reflexivity|]. rewrite <- app_assoc. reflexivity.
  - destruct l; [left; reflexivity|]. right. unfold WriteBools, write_packed.
    eexists 2, _. split; [right; reflexivity|]. reflexivity.
  - destruct l; [left; reflexivity|]. right. unfold WriteUInt32s, write_packed.
    eexists 2, _. split; [right; reflexivity|]. reflexivity.
  - destruct l; [left; reflexivity|]. right. unfold WriteUInts, write_packed.
    eexists 2, _. split; [right; reflexivity|]. reflexivity.
  - destruct m; [|left; reflexivity]. destruct (lookup E name); [|left; reflexivity]. right.
    unfold WriteEncodable. eexists 2, _. split; [right; reflexivity|]. reflexivity.
  - destruct (lookup E name); [|left; reflexivity]. destruct l; [left; reflexivity|]. right.
    cbn [flat_map]. unfold WriteEncodable. eexists 2, _. split; [right; reflexivity|]. rewrite <- app_assoc. reflexivity.
Qed.

Notation EF := (encode_fields (encode_field S E enc)).

(* after the reader has consumed field [fn], what follows (fields with larger numbers, then the end of the
   message) never looks like another occurrence of field [fn] *)
Lemma absent_rest : forall s vs fn wt p post, increasing fn s = true -> fn_ok fn ->
  absent (at_ p (EF s vs ++ post) (Z.of_nat (length p) + Z.of_nat (length (EF s vs)))) fn wt.
Proof.
  induction s as [|[fn' ty'] s IHs]; intros vs fn wt p post Hinc Hfn.
  - cbn [encode_fields]. apply absent_end. cbn. lia.
  - destruct vs as [|v vs]; [cbn [encode_fields]; apply absent_end; cbn; lia|].
    cbn [encode_fields increasing] in *.
    apply andb_prop in Hinc. destruct Hinc as [Hinc Hrest]. apply andb_prop in Hinc. destruct Hinc as [Hlt Hok'].
    assert (Hfn' : fn_ok fn') by (unfold fn_okb, fn_ok in *; lia).
    destruct (field_head fn' ty' v) as [Hnil|(wt' & tail & Hwt & Heq)].
    + rewrite Hnil. cbn [app length]. apply IHs; auto.
      (* increasing fn' s -> increasing fn s since fn < fn' *)
      clear - Hrest Hlt. destruct s as [|[f2 t2] s2]; [reflexivity|]. cbn [increasing] in *.
      apply andb_prop in Hrest. destruct Hrest as [H1 H2]. apply andb_prop in H1. destruct H1 as [H1 H3].
      rewrite H2, H3. assert (fn <? f2 = true) by lia. rewrite H. reflexivity.
    + rewrite Heq. rewrite <- !app_assoc. apply absent_other_key; auto. lia.
Qed.

Lemma increasing_weaken : forall a b s, a <= b -> increasing b s = true -> increasing a s = true.
Proof.
  intros a b s Hab H. destruct s as [|[f t] s]; [reflexivity|]. cbn [increasing] in *.
  apply andb_prop in H. destruct H as [H1 H2]. apply andb_prop in H1. destruct H1 as [H1 H3].
  rewrite H2, H3. assert (a <? f = true) by lia. rewrite H. reflexivity.
Qed.

(* ---- one field ---- *)
Lemma decode_field_rt : forall strict fn ty v pre post lm,
  fn_ok fn -> wt_field ok ty v -> (strict = true -> not_nil v) ->
  let W := encode_field S E enc fn ty v in
  (Z.of_nat (length (pre ++ W ++ post)) < 2^62)%Z ->
  (Z.of_nat (length pre) + Z.of_nat (length W) <= lm)%Z ->
  (forall wt, absent (at_ (pre ++ W) post lm) fn wt) ->
  decode_field S E dec strict fn ty (at_ pre (W ++ post) lm)
  = Ok (canon_field S E can ty v, at_ (pre ++ W) post lm).
Proof.
  intros strict fn ty v pre post lm Hfn Hwt Hnn W Hs Hlm Habs.
  pose proof (write_key_len 0 fn) as K0. pose proof (write_key_len 2 fn) as K2.
  destruct ty, v; cbn [wt_field] in Hwt; try contradiction; subst W; cbn [encode_field canon_field decode_field] in *.
  - (* Bool *) unfold WriteBool in Hlm. rewrite !app_length in Hlm.
    rewrite ReadBool_WriteBool by (auto; lia). reflexivity.
  - (* U32 *) unfold WriteUInt32, WriteUInt in Hlm. rewrite !app_length in Hlm.
    rewrite ReadUInt32_WriteUInt32 by (auto; lia). reflexivity.
  - (* U64 *) unfold WriteUInt in Hlm. rewrite !app_length in Hlm.
    rewrite ReadUInt_WriteUInt by (auto; lia). reflexivity.
  - (* I32 *) unfold WriteInt32, WriteInt in Hlm. rewrite !app_length in Hlm.
    rewrite ReadInt32_WriteInt32 by (auto; lia). reflexivity.
  - (* I64 *) unfold WriteInt in Hlm. rewrite !app_length in Hlm.
    rewrite ReadInt_WriteInt by (auto; lia). reflexivity.
  - (* Str *) assert (Hl : (Z.of_nat (length pre) < lm)%Z) by (unfold WriteString, WriteBytes in Hlm; rewrite !app_length in Hlm; lia).
    rewrite ReadString_WriteString by auto. reflexivity.
  - (* Bytes *) assert (Hl : (Z.of_nat (length pre) < lm)%Z) by (unfold WriteBytes in Hlm; rewrite !app_length in Hlm; lia).
    rewrite ReadBytes_WriteBytes by auto. reflexivity.
  - (* BytesArr *) unfold ReadBytesArray, WriteBytesArray, WriteBytes in *.
    rewrite (rep_loop_at _ _ read_bytes_r write_bytes (fun x => x) (fun _ => True) fn lm Hfn); auto.
    + cbn [lift bind]. rewrite map_id. reflexivity.
    + intros. apply read_bytes_r_at. unfold write_bytes in *. rewrite !app_length in *. lia.
    + clear. induction l; constructor; auto.
    + unfold loop_fuel. cbn [data at_]. rewrite !app_length.
      pose proof (flat_map_len_ge _ (fun v => write_key 2 fn ++ write_bytes v) l) as G.
      assert (forall v : list N, (1 <= length (write_key 2 fn ++ write_bytes v))%nat) by (intros; rewrite app_length; lia).
      specialize (G H). lia.
  - (* Strs *) unfold ReadStrings, WriteStrings, WriteString, WriteBytes in *.
    destruct laws as [L1 L2].
    assert (Hfm : flat_map (fun s => write_key 2 fn ++ write_bytes (nfc_norm S s)) l
                  = flat_map (fun s => write_key 2 fn ++ write_bytes s) (map (nfc_norm S) l)).
    { clear. induction l; cbn [flat_map map]; [reflexivity|]. rewrite IHl. reflexivity. }
    rewrite Hfm in *.
    rewrite (rep_loop_at _ _ (read_string_r S) write_bytes (fun x => x)
               (fun s => utf8_valid S s = true /\ is_nfc S s = true) fn lm Hfn); auto.
    + cbn [lift bind]. rewrite map_id. reflexivity.
    + intros s0 pre0 post0 [Hu Hn] Hsm. apply read_string_r_at; auto. unfold write_bytes in *. rewrite !app_length in *. lia.
    + clear - Hwt L1. induction l; cbn; constructor; inversion Hwt; subst; auto.
      destruct (L1 a H1). split; assumption.
    + unfold loop_fuel. cbn [data at_]. rewrite !app_length, map_length.
      pose proof (flat_map_len_ge _ (fun v => write_key 2 fn ++ write_bytes v) (map (nfc_norm S) l)) as G.
      assert (forall v : list N, (1 <= length (write_key 2 fn ++ write_bytes v))%nat) by (intros; rewrite app_length; lia).
      specialize (G H). rewrite map_length in G. lia.
  - (* Bools *) unfold ReadBools, WriteBools. destruct l as [|b l].
    + cbn [write_packed app] in *. rewrite app_nil_r in *. rewrite read_packed_absent by apply Habs. reflexivity.
    + rewrite (read_packed_write_packed _ read_bool_r write_bool (fun _ => True)); auto; try discriminate.
      * intros. apply read_bool_r_at.
      * clear. induction (b :: l); constructor; auto.
      * unfold WriteBools, write_packed in Hlm. rewrite !app_length in Hlm. lia.
  - (* U32s *) unfold ReadUInt32s, WriteUInt32s. destruct l as [|b l].
    + cbn [write_packed app] in *. rewrite app_nil_r in *. rewrite read_packed_absent by apply Habs. reflexivity.
    + rewrite (read_packed_write_packed _ read_uint_r write_uint (fun n => n < 2^32)); auto; try discriminate.
      * cbn [bind lift]. f_equal. f_equal. f_equal.
        clear - Hwt. induction (b :: l) as [|x xs IHx]; [reflexivity|]. inversion Hwt; subst. cbn [map].
        rewrite IHx by assumption. unfold u32. rewrite N.mod_small by assumption. reflexivity.
      * intros v _. apply enc_varint_nonempty.
      * intros. apply read_uint_r_at. lia.
      * unfold WriteUInt32s, write_packed in Hlm. rewrite !app_length in Hlm. lia.
  - (* U64s *) unfold ReadUInts, WriteUInts. destruct l as [|b l].
    + cbn [write_packed app] in *. rewrite app_nil_r in *. rewrite read_packed_absent by apply Habs. reflexivity.
    + rewrite (read_packed_write_packed _ read_uint_r write_uint (fun n => n < 2^64)); auto; try discriminate.
      * intros v _. apply enc_varint_nonempty.
      * intros. apply read_uint_r_at. assumption.
      * unfold WriteUInts, write_packed in Hlm. rewrite !app_length in Hlm. lia.
  - (* Msg *) destruct m as [nv|].
    + destruct Hwt as (ns & Hl & Hok). rewrite Hl in *. unfold WriteEncodable in *.
      rewrite <- app_assoc. rewrite with_key_present; [|assumption|right; reflexivity|rewrite !app_length in Hlm; lia].
      rewrite read_nested_at; auto.
      * cbn [lift bind]. rewrite <- app_assoc. reflexivity.
      * eapply HE; eauto.
      * rewrite !app_length in *. lia.
    + destruct Hwt as (ns & Hl). rewrite Hl in *. cbn [app] in *. rewrite app_nil_r in *.
      destruct strict; [exfalso; apply Hnn; reflexivity|].
      rewrite with_key_absent by apply Habs. reflexivity.
  - (* Msgs *) destruct Hwt as (ns & Hl & Hok). rewrite Hl in *. unfold WriteEncodable in *.
    rewrite (rep_loop_at _ _ (read_nested dec ns) (fun nv => write_bytes (enc ns nv)) (can ns)
               (fun nv => ok ns nv) fn lm Hfn); auto.
    + intros nv pre0 post0 Hnv Hsm. apply read_nested_at; auto. eapply HE; eauto.
    + unfold loop_fuel. cbn [data at_]. rewrite !app_length.
      pose proof (flat_map_len_ge _ (fun nv => write_key 2 fn ++ write_bytes (enc ns nv)) l) as G.
      assert (forall v, (1 <= length (write_key 2 fn ++ write_bytes (enc ns v)))%nat) by (intros; rewrite app_length; lia).
      specialize (G H). lia.
Qed.

(* ---- all fields of a struct ---- *)
Lemma decode_fields_rt : forall strict s vs prev pre post,
  increasing prev s = true -> wt_fields (wt_field ok) s vs -> (strict = true -> Forall not_nil vs) ->
  (Z.of_nat (length (pre ++ EF s vs ++ post)) < 2^62)%Z ->
  let lm := (Z.of_nat (length pre) + Z.of_nat (length (EF s vs)))%Z in
  decode_fields (decode_field S E dec strict) s (at_ pre (EF s vs ++ post) lm)
  = Ok (canon_fields (canon_field S E can) s vs, at_ (pre ++ EF s vs) post lm).
Proof.
  intros strict. induction s as [|[fn ty] s IHs]; intros vs prev pre post Hinc Hwt Hnn Hs lm.
  - destruct vs; [|contradiction]. cbn [encode_fields decode_fields canon_fields app] in *. rewrite app_nil_r. reflexivity.
  - destruct vs as [|v vs]; [contradiction|]. destruct Hwt as [Hv Hrest].
    cbn [increasing] in Hinc. apply andb_prop in Hinc. destruct Hinc as [Hinc Hinc']. apply andb_prop in Hinc. destruct Hinc as [_ Hfnb].
    assert (Hfn : fn_ok fn) by (unfold fn_okb, fn_ok in *; lia).
    subst lm. cbn [encode_fields decode_fields canon_fields] in *.
    set (W := encode_field S E enc fn ty v) in *. set (R := EF s vs) in *.
    rewrite !app_length in *.
    rewrite <- app_assoc.
    rewrite (decode_field_rt strict fn ty v pre (R ++ post)); auto.
    + cbn [bind]. fold W.
      specialize (IHs vs fn (pre ++ W) post Hinc' Hrest).
      replace (Z.of_nat (length pre) + Z.of_nat (length W + length R))%Z
        with (Z.of_nat (length (pre ++ W)) + Z.of_nat (length R))%Z by (rewrite app_length; lia).
      fold R in IHs. rewrite IHs.
      * cbn [bind]. rewrite <- app_assoc. reflexivity.
      * intros Hst. specialize (Hnn Hst). inversion Hnn; assumption.
      * rewrite !app_length in *. lia.
    + intros Hst. specialize (Hnn Hst). inversion Hnn; assumption.
    + fold W. rewrite !app_length. lia.
    + fold W. lia.
    + intros wt. fold W.
      replace (Z.of_nat (length pre) + Z.of_nat (length W + length R))%Z
        with (Z.of_nat (length (pre ++ W)) + Z.of_nat (length R))%Z by (rewrite app_length; lia).
      apply absent_rest; auto.
Qed.

End Level.

(* ---- every nesting level ---- *)
Theorem struct_rt : forall fuel,
  RT (encode_struct S E fuel) (decode_struct S E fuel false) (canon_struct S E fuel) (wt_struct fuel).
Proof.
  induction fuel as [|fuel IH]; intros ns nv pre post Hok Hinc Hs lm; [contradiction|].
  cbn [encode_struct decode_struct canon_struct wt_struct] in *.
  apply (decode_fields_rt _ _ _ _ IH false ns nv 0 pre post); auto. discriminate.
Qed.

Theorem struct_rt_strict : forall fuel ns nv pre post,
  wt_struct (Datatypes.S fuel) ns nv -> increasing 0 ns = true -> Forall not_nil nv ->
  (Z.of_nat (length (pre ++ encode_struct S E (Datatypes.S fuel) ns nv ++ post)) < 2^62)%Z ->
  let lm := (Z.of_nat (length pre) + Z.of_nat (length (encode_struct S E (Datatypes.S fuel) ns nv)))%Z in
  decode_struct S E (Datatypes.S fuel) true ns (at_ pre (encode_struct S E (Datatypes.S fuel) ns nv ++ post) lm)
  = Ok (canon_struct S E (Datatypes.S fuel) ns nv, at_ (pre ++ encode_struct S E (Datatypes.S fuel) ns nv) post lm).
Proof.
  intros fuel ns nv pre post Hok Hinc Hnn Hs lm.
  cbn [encode_struct decode_struct canon_struct wt_struct] in *.
  apply (decode_fields_rt _ _ _ _ (struct_rt fuel) true ns nv 0 pre post); auto.
Qed.

(* ---- top level ---- *)
Theorem decode_encode : forall fuel s vs, wt_struct fuel s vs -> increasing 0 s = true ->
  (Z.of_nat (length (encode_struct S E fuel s vs)) < 2^62)%Z ->
  Decode S E fuel s (encode_struct S E fuel s vs) = Ok (canon_struct S E fuel s vs).
Proof.
  intros fuel s vs Hok Hinc Hs. unfold Decode.
  pose proof (struct_rt fuel s vs [] [] Hok Hinc) as H. cbn [app length] in H. rewrite app_nil_r in H.
  specialize (H Hs). cbn zeta in H.
  change (new_reader (encode_struct S E fuel s vs))
    with (at_ [] (encode_struct S E fuel s vs) (Z.of_nat 0 + Z.of_nat (length (encode_struct S E fuel s vs)))).
  rewrite H. reflexivity.
Qed.

Theorem decode_strict_encode : forall fuel s vs, wt_struct (Datatypes.S fuel) s vs -> increasing 0 s = true ->
  Forall not_nil vs ->
  (Z.of_nat (length (encode_struct S E (Datatypes.S fuel) s vs)) < 2^62)%Z ->
  DecodeStrict S E (Datatypes.S fuel) s (encode_struct S E (Datatypes.S fuel) s vs)
  = Ok (canon_struct S E (Datatypes.S fuel) s vs).
Proof.
  intros fuel s vs Hok Hinc Hnn Hs. unfold DecodeStrict.
  pose proof (struct_rt_strict fuel s vs [] [] Hok Hinc Hnn) as H. cbn [app length] in H. rewrite app_nil_r in H.
  specialize (H Hs). cbn zeta in H.
  set (e := encode_struct S E (Datatypes.S fuel) s vs) in *.
  change (new_reader e) with (at_ [] e (Z.of_nat 0 + Z.of_nat (length e))).
  rewrite H. cbn [bind]. unfold has_unread, at_. cbn [idx lim].
  destruct (Z.eqb_spec (Z.of_nat (length e)) (Z.of_nat 0 + Z.of_nat (length e))); [reflexivity|lia].
Qed.

End RT.

(* wf_env gives the hypothesis HE *)
Lemma wf_env_increasing : forall E, wf_env E = true -> forall nm ns, lookup E nm = Some ns -> increasing 0 ns = true.
Proof.
  intros E W nm ns Hl. unfold wf_env in W. rewrite forallb_forall in W.
  assert (Hin : In (nm, ns) E).
  { clear W. revert Hl. induction E as [|[n0 s0] E IH]; cbn; [discriminate|].
    destruct (String.eqb_spec n0 nm); intros H; [inversion H; subst; left; reflexivity|right; auto]. }
  specialize (W (nm, ns) Hin). cbn [snd] in W. unfold wf_schema in W. apply andb_prop in W. apply W.
Qed.
