(* Model of pkg/codec/writer.go (every Write* primitive) and key.go getKey.  A writer is the byte string it
   has produced; each Write* returns the bytes it appends.  getKey's 5-byte buffer holds any key < 2^35,
   i.e. any field number < 2^32; [wf] schemas (Schema.v) have field numbers < 2^28. *)
From Coq Require Import List NArith ZArith Arith Bool.
From LE Require Import Codec.Varint Codec.Reader.
Import ListNotations.
Local Open Scope N_scope.

Definition write_key (wt fn : N) : list N := enc_varint (fn * 8 + wt).   (* (fieldNumber << 3) | wireType *)
Definition write_uint (n : N) : list N := enc_varint n.                  (* binary.PutUvarint *)
(* binary.PutVarint: ux := uint64(x) << 1; if x < 0 { ux = ^ux } *)
Definition zigzag (z : Z) : N := if (z <? 0)%Z then Z.to_N (- 2 * z - 1) else Z.to_N (2 * z).
Definition write_int (z : Z) : list N := enc_varint (zigzag z).
Definition write_bool (b : bool) : list N := [if b then 1 else 0].
Definition write_bytes (bs : list N) : list N := enc_varint (N.of_nat (length bs)) ++ bs.

Definition WriteBytes (fn : N) (bs : list N) : list N := write_key 2 fn ++ write_bytes bs.
Definition WriteBytesArray (fn : N) (l : list (list N)) : list N := flat_map (WriteBytes fn) l.
Definition WriteString (S : strops) (fn : N) (s : list N) : list N := WriteBytes fn (nfc_norm S s).
Definition WriteStrings (S : strops) (fn : N) (l : list (list N)) : list N := flat_map (WriteString S fn) l.
Definition WriteBool (fn : N) (b : bool) : list N := write_key 0 fn ++ write_bool b.
Definition write_packed {A} (elem : A -> list N) (fn : N) (l : list A) : list N :=
  match l with [] => [] | _ => write_key 2 fn ++ write_bytes (flat_map elem l) end.
Definition WriteBools := write_packed write_bool.
Definition WriteUInt (fn : N) (n : N) : list N := write_key 0 fn ++ write_uint n.
Definition WriteUInt32 := WriteUInt.                                       (* uint64(data) *)
Definition WriteUInts := write_packed write_uint.
Definition WriteUInt32s := write_packed write_uint.
Definition WriteInt (fn : N) (z : Z) : list N := write_key 0 fn ++ write_int z.
Definition WriteInt32 := WriteInt.                                         (* int64(data) *)
Definition WriteInts := write_packed write_int.
Definition WriteInt32s := write_packed write_int.
(* WriteEncodable: nil -> nothing; otherwise key, length, data.Encode() *)
Definition WriteEncodable (fn : N) (enc : option (list N)) : list N :=
  match enc with None => [] | Some e => write_key 2 fn ++ write_bytes e end.
