(* The concrete string functions used when the model is evaluated (answer "normal" for undecided strings) satisfy the two
   laws the round-trip theorems assume: the theorems therefore apply to the very instance the correspondence runs. *)
From Coq Require Import List NArith Bool.
From LE Require Import Codec.Varint Codec.Reader Codec.ReaderProofs Codec.Str.
Import ListNotations.
Local Open Scope N_scope.

Lemma lookup_values : forall s n, lookup s nfc_table = Some n ->
  lookup n nfc_table = None /\ utf8_valid_c n = true.
Proof.
  intros s n H. unfold nfc_table in H. cbn [lookup] in H.
  repeat match type of H with
  | (if ?c then _ else _) = _ => destruct c; [inversion H; subst; split; vm_compute; reflexivity|]
  end.
  discriminate.
Qed.

Theorem corr_strops_laws : str_laws (corr_strops true).
Proof.
  split.
  - intros s Hv. cbn [utf8_valid is_nfc nfc_norm corr_strops] in *. unfold is_nfc_c, nfc_norm_c.
    destruct (lookup s nfc_table) as [n|] eqn:E.
    + destruct (lookup_values s n E) as [L U]. rewrite L. split; [destruct (in_normal n); [reflexivity|destruct (has_high n); reflexivity]|exact U].
    + rewrite E. split; [destruct (in_normal s); [reflexivity|destruct (has_high s); reflexivity]|exact Hv].
  - intros s Hn. cbn [is_nfc nfc_norm corr_strops] in *. unfold is_nfc_c, nfc_norm_c in *.
    destruct (lookup s nfc_table); [discriminate|reflexivity].
Qed.
