// Mutator-closure translator for C04 (stdlib only).  Lists, from the current source of /repo, every call site in
// pkg/blockchain and pkg/consensus/** of a method named Write, DropAll, Set, Del, NewBatch, Commit or RevertDiff (the ways to reach the engine
// database or a batch destined for it), and every call of deleteBlock / the sync `reverter` with the expression passed as the
// block to delete, and emits them as Coq lists (coq/Gen/Mutators.v).  Purely syntactic and fail-closed: anything named like a
// mutator is listed, and the Coq side requires the list to be EXACTLY the expected one.
package main

import (
	"flag"
	"fmt"
	"go/ast"
	"go/parser"
	"go/printer"
	"go/token"
	"os"
	"path/filepath"
	"sort"
	"strings"
)

type site struct{ pkg, fn, recv, method string }

func exprText(fset *token.FileSet, e ast.Expr) string {
	var sb strings.Builder
	if err := printer.Fprint(&sb, fset, e); err != nil {
		return "?"
	}
	return strings.Join(strings.Fields(sb.String()), " ")
}

func funcName(d *ast.FuncDecl) string {
	if d.Recv != nil && len(d.Recv.List) == 1 {
		t := d.Recv.List[0].Type
		if s, ok := t.(*ast.StarExpr); ok {
			t = s.X
		}
		if id, ok := t.(*ast.Ident); ok {
			return id.Name + "." + d.Name.Name
		}
		if ix, ok := t.(*ast.IndexExpr); ok {
			if id, ok := ix.X.(*ast.Ident); ok {
				return id.Name + "." + d.Name.Name
			}
		}
		return "?." + d.Name.Name
	}
	return d.Name.Name
}

func q(s string) string { return "\"" + strings.ReplaceAll(s, "\"", "\"\"") + "\"" }

func main() {
	repo := flag.String("repo", "/repo", "repository root")
	out := flag.String("out", "", "output .v file")
	flag.Parse()
	roots := []string{"pkg/blockchain", "pkg/consensus"}
	methods := map[string]bool{"Write": true, "DropAll": true, "Set": true, "Del": true, "NewBatch": true, "Commit": true, "RevertDiff": true}
	var sites []site
	var deletes [][3]string // function, argument expression, how that variable is obtained in the function
	type fdecl struct {
		rel, fn string
		d       *ast.FuncDecl
	}
	var all []fdecl
	fset := token.NewFileSet()
	for _, root := range roots {
		err := filepath.Walk(filepath.Join(*repo, root), func(path string, info os.FileInfo, err error) error {
			if err != nil {
				return err
			}
			if info.IsDir() || !strings.HasSuffix(path, ".go") || strings.HasSuffix(path, "_test.go") {
				return nil
			}
			src, err := os.ReadFile(path)
			if err != nil {
				return err
			}
			if strings.HasPrefix(string(src), "//go:build verif") {
				return nil // verification hooks: not part of the shipped binary
			}
			if strings.HasSuffix(path, "_codec.go") {
				return nil // generated encoders: Write* calls on codec writers only; method names differ (WriteUInt32, …)
			}
			f, err := parser.ParseFile(fset, path, src, 0)
			if err != nil {
				return err
			}
			rel, _ := filepath.Rel(filepath.Join(*repo, "pkg"), filepath.Dir(path))
			for _, decl := range f.Decls {
				fd, ok := decl.(*ast.FuncDecl)
				if !ok || fd.Body == nil {
					continue
				}
				fn := funcName(fd)
				all = append(all, fdecl{rel, fn, fd})
				assigned := map[string]string{}
				ast.Inspect(fd.Body, func(n ast.Node) bool {
					if as, ok := n.(*ast.AssignStmt); ok && len(as.Lhs) == 1 && len(as.Rhs) == 1 {
						if id, ok := as.Lhs[0].(*ast.Ident); ok {
							assigned[id.Name] = exprText(fset, as.Rhs[0])
						}
					}
					return true
				})
				ast.Inspect(fd.Body, func(n ast.Node) bool {
					call, ok := n.(*ast.CallExpr)
					if !ok {
						return true
					}
					sel, ok := call.Fun.(*ast.SelectorExpr)
					if !ok {
						return true
					}
					name := sel.Sel.Name
					if methods[name] {
						sites = append(sites, site{rel, fn, exprText(fset, sel.X), name})
					}
					if (name == "deleteBlock" || name == "reverter") && len(call.Args) >= 2 {
						arg := exprText(fset, call.Args[1])
						deletes = append(deletes, [3]string{rel + ":" + fn, arg, assigned[arg]})
					}
					return true
				})
			}
			return nil
		})
		if err != nil {
			fmt.Fprintln(os.Stderr, "mutators:", err)
			os.Exit(2)
		}
	}
	// ---- writer parameters, one level of indirection -------------------------------------------------------------
	// A parameter p of a function F is a *writer parameter* when F's body calls p.Set / p.Del / p.Write / p.DropAll, or hands p
	// to Commit / RevertDiff (diffdb: they write into their argument), or hands p to a writer parameter of another function
	// (two propagation rounds).  Every call site of such an F is listed with the text of the argument bound to p; so are the
	// first arguments of Commit / RevertDiff calls.  A batch is fine; the database handle there is a direct durable write that
	// no `x.database.Set(` pattern shows.
	writerIdx := map[string]map[int]bool{} // function (bare name) -> indexes of writer parameters
	paramIndex := func(d *ast.FuncDecl) map[string]int {
		m := map[string]int{}
		i := 0
		for _, f := range d.Type.Params.List {
			if len(f.Names) == 0 {
				i++
				continue
			}
			for _, nm := range f.Names {
				m[nm.Name] = i
				i++
			}
		}
		return m
	}
	mark := func(name string, idx int) bool {
		if writerIdx[name] == nil {
			writerIdx[name] = map[int]bool{}
		}
		if writerIdx[name][idx] {
			return false
		}
		writerIdx[name][idx] = true
		return true
	}
	for round := 0; round < 3; round++ {
		for _, f := range all {
			pi := paramIndex(f.d)
			ast.Inspect(f.d.Body, func(n ast.Node) bool {
				call, ok := n.(*ast.CallExpr)
				if !ok {
					return true
				}
				callee := ""
				switch fx := call.Fun.(type) {
				case *ast.SelectorExpr:
					callee = fx.Sel.Name
					if id, ok := fx.X.(*ast.Ident); ok {
						if idx, isParam := pi[id.Name]; isParam {
							switch callee {
							case "Set", "Del", "Write", "DropAll":
								mark(f.d.Name.Name, idx)
							}
						}
					}
				case *ast.Ident:
					callee = fx.Name
				}
				for ai, arg := range call.Args {
					id, ok := arg.(*ast.Ident)
					if !ok {
						continue
					}
					idx, isParam := pi[id.Name]
					if !isParam {
						continue
					}
					if (callee == "Commit" || callee == "RevertDiff") && ai == 0 {
						mark(f.d.Name.Name, idx)
					}
					if writerIdx[callee][ai] {
						mark(f.d.Name.Name, idx)
					}
				}
				return true
			})
		}
	}
	var wargs [][3]string // caller, callee, argument text
	for _, f := range all {
		ast.Inspect(f.d.Body, func(n ast.Node) bool {
			call, ok := n.(*ast.CallExpr)
			if !ok {
				return true
			}
			callee := ""
			switch fx := call.Fun.(type) {
			case *ast.SelectorExpr:
				callee = fx.Sel.Name
			case *ast.Ident:
				callee = fx.Name
			}
			for ai, arg := range call.Args {
				if writerIdx[callee][ai] || ((callee == "Commit" || callee == "RevertDiff") && ai == 0) {
					wargs = append(wargs, [3]string{f.rel + ":" + f.fn, callee, exprText(fset, arg)})
				}
			}
			return true
		})
	}
	sort.Slice(wargs, func(i, j int) bool {
		return wargs[i][0]+"|"+wargs[i][1]+"|"+wargs[i][2] < wargs[j][0]+"|"+wargs[j][1]+"|"+wargs[j][2]
	})

	sort.Slice(sites, func(i, j int) bool {
		a, b := sites[i], sites[j]
		return a.pkg+"|"+a.fn+"|"+a.recv+"|"+a.method < b.pkg+"|"+b.fn+"|"+b.recv+"|"+b.method
	})
	// collapse duplicates (same function, receiver, method) keeping a count
	type cs struct {
		s site
		n int
	}
	var cl []cs
	for _, s := range sites {
		if len(cl) > 0 && cl[len(cl)-1].s == s {
			cl[len(cl)-1].n++
		} else {
			cl = append(cl, cs{s, 1})
		}
	}
	sort.Slice(deletes, func(i, j int) bool { return deletes[i][0]+deletes[i][1] < deletes[j][0]+deletes[j][1] })
	var sb strings.Builder
	sb.WriteString("(* GENERATED by translate/mutators from /repo, directories pkg/blockchain and pkg/consensus (recursively). Do not edit. *)\n")
	sb.WriteString("From Coq Require Import List String NArith.\nImport ListNotations.\nLocal Open Scope string_scope.\n\n")
	sb.WriteString("(* (package dir, function, receiver expression, method, number of call sites) *)\n")
	sb.WriteString("Definition found_sites : list (string * string * string * string * N) := [\n")
	for i, c := range cl {
		sep := ";"
		if i == len(cl)-1 {
			sep = ""
		}
		fmt.Fprintf(&sb, "  (%s, %s, %s, %s, %d%%N)%s\n", q(c.s.pkg), q(c.s.fn), q(c.s.recv), q(c.s.method), c.n, sep)
	}
	sb.WriteString("].\n\n(* calls of deleteBlock / reverter: (function, block argument, how the argument was obtained in that function) *)\n")
	sb.WriteString("Definition found_delete_calls : list (string * string * string) := [\n")
	for i, d := range deletes {
		sep := ";"
		if i == len(deletes)-1 {
			sep = ""
		}
		fmt.Fprintf(&sb, "  (%s, %s, %s)%s\n", q(d[0]), q(d[1]), q(d[2]), sep)
	}
	sb.WriteString("].\n\n(* arguments bound to writer parameters (one level): (caller, callee, argument); see translate/mutators *)\n")
	sb.WriteString("Definition found_writer_args : list (string * string * string) := [\n")
	for i, d := range wargs {
		sep := ";"
		if i == len(wargs)-1 {
			sep = ""
		}
		fmt.Fprintf(&sb, "  (%s, %s, %s)%s\n", q(d[0]), q(d[1]), q(d[2]), sep)
	}
	sb.WriteString("].\n")
	if *out == "" {
		fmt.Print(sb.String())
		return
	}
	old, err := os.ReadFile(*out)
	if err == nil && string(old) == sb.String() {
		return
	}
	if err := os.WriteFile(*out, []byte(sb.String()), 0o644); err != nil {
		fmt.Fprintln(os.Stderr, "mutators:", err)
		os.Exit(2)
	}
}
