// Mutator-closure translator for C04 / C13 (stdlib only) — SEMANTIC version.
//
// A small abstract interpretation over go/ast of pkg/blockchain, pkg/consensus, pkg/engine and pkg/generator (recursively; tests,
// *_verif.go and generated codec files excluded; engine and generator hold the handle as field `blockchainDB`).  Abstract values of expressions:
//
//	DB        the engine database handle: a selector whose field is `database` or `blockchainDB` (c.database, g.blockchainDB, …)
//	B<k>      the k-th batch created (X.NewBatch() on a DB) along the analysed path
//	P<i>      the i-th parameter of the function under analysis
//	Tip       the result of X.LastBlock()
//	?         anything else
//
// Local assignments are followed; calls to functions/methods of the scanned packages are INLINED (callee parameters bound to the
// caller's abstract arguments, by bare name — every candidate of an ambiguous name — to depth 10, recursion cut), but only
// callees that can reach a primitive.  Primitives:
//
//	obj.Set / obj.Del            obj = B/P: stage into obj;  obj = DB: DIRECT durable write
//	X.Commit(obj) / X.RevertDiff(obj, …)   (diffdb: they write into their first argument) as above
//	DB.Write(obj)                durable commit of obj;   DB.DropAll(): DIRECT
//	deleteBlock(ctx, blk, …) / reverter(ctx, blk, …)     records the origin of blk
//
// Emitted (coq/Gen/Mutators.v), all independent of helper extraction / inlining / renaming of locals and helpers:
//
//	found_steps          for each exported step (processValidated, processGenesisBlock, deleteBlock, AddBlock, RemoveBlock,
//	                     ClearTempBlocks): batches created, objects staged into, durable commits, direct writes
//	found_global         number of syntactic DB.Write call sites, direct writes anywhere (also through a parameter bound to DB)
//	found_delete_origin  every deleteBlock / reverter call gets a block that originates from LastBlock()
//
// Fail closed: parse errors, a missing step function, or an empty call set abort.
package main

import (
	"flag"
	"fmt"
	"go/ast"
	"go/parser"
	"go/token"
	"os"
	"path/filepath"
	"sort"
	"strings"
)

type aval struct {
	kind string // db | batch | param | tip | unk
	n    int
}

func (a aval) String() string {
	switch a.kind {
	case "db":
		return "DB"
	case "batch":
		return fmt.Sprintf("B%d", a.n)
	case "param":
		return fmt.Sprintf("P%d", a.n)
	case "tip":
		return "Tip"
	}
	return "?"
}

type effect struct {
	kind string // new | stage | write | direct | delcall
	obj  aval
	what string // for direct: description; for delcall: function containing the call
	org  string // package directory of the function that syntactically contains the primitive
}

type fdecl struct {
	rel, name, full string
	d               *ast.FuncDecl
}

var (
	funcs    []*fdecl
	byName   = map[string][]*fdecl{}
	relevant = map[*fdecl]bool{}
	// poor man's types: struct fields, methods per receiver type, plain functions, first result type
	structs = map[string]map[string]string{}
	methods = map[string]map[string]*fdecl{}
	plain   = map[string][]*fdecl{}
	// function-valued fields of the syncers, bound in NewSyncer(..., c.processValidated, c.deleteBlock)
	funcFields = map[string]string{"processor": "processValidated", "reverter": "deleteBlock"}
)

// typeName: bare name of the (pointed-to, package-qualified) named type of a type expression, "" if not a plain named type.
func typeName(e ast.Expr) string {
	switch x := e.(type) {
	case *ast.Ident:
		return x.Name
	case *ast.StarExpr:
		return typeName(x.X)
	case *ast.SelectorExpr:
		return x.Sel.Name
	case *ast.ParenExpr:
		return typeName(x.X)
	}
	return ""
}

func recvType(d *ast.FuncDecl) string {
	if d.Recv != nil && len(d.Recv.List) == 1 {
		return typeName(d.Recv.List[0].Type)
	}
	return ""
}

func resultType(d *ast.FuncDecl) string {
	if d.Type.Results != nil && len(d.Type.Results.List) > 0 {
		return typeName(d.Type.Results.List[0].Type)
	}
	return ""
}

// resolve: the functions a call may denote, using the static type of the receiver where it is known. A method call on a
// receiver of unknown or foreign type resolves to nothing (primitives are handled separately).
func (c *ctx) resolve(call *ast.CallExpr) []*fdecl {
	switch fx := call.Fun.(type) {
	case *ast.Ident:
		return plain[fx.Name]
	case *ast.SelectorExpr:
		if target, ok := funcFields[fx.Sel.Name]; ok {
			return byName[target]
		}
		if id, ok := fx.X.(*ast.Ident); ok {
			if _, isVar := c.tenv[id.Name]; !isVar {
				if _, isVal := c.env[id.Name]; !isVal {
					return plain[fx.Sel.Name] // package-qualified function: blockchain.NewBlock(...)
				}
			}
		}
		if t := c.typeOf(fx.X); t != "" {
			if m, ok := methods[t][fx.Sel.Name]; ok {
				return []*fdecl{m}
			}
		}
	}
	return nil
}

func (c *ctx) typeOf(e ast.Expr) string {
	switch x := e.(type) {
	case *ast.Ident:
		return c.tenv[x.Name]
	case *ast.ParenExpr:
		return c.typeOf(x.X)
	case *ast.StarExpr:
		return c.typeOf(x.X)
	case *ast.UnaryExpr:
		return c.typeOf(x.X)
	case *ast.CompositeLit:
		return typeName(x.Type)
	case *ast.SelectorExpr:
		if t := c.typeOf(x.X); t != "" {
			return structs[t][x.Sel.Name]
		}
	case *ast.CallExpr:
		for _, f := range c.resolve(x) {
			if r := resultType(f.d); r != "" {
				return r
			}
		}
	}
	return ""
}

func funcFull(d *ast.FuncDecl) string {
	if d.Recv != nil && len(d.Recv.List) == 1 {
		t := d.Recv.List[0].Type
		if s, ok := t.(*ast.StarExpr); ok {
			t = s.X
		}
		if id, ok := t.(*ast.Ident); ok {
			return id.Name + "." + d.Name.Name
		}
		return "?." + d.Name.Name
	}
	return d.Name.Name
}

func calleeName(c *ast.CallExpr) (string, ast.Expr) {
	switch fx := c.Fun.(type) {
	case *ast.SelectorExpr:
		return fx.Sel.Name, fx.X
	case *ast.Ident:
		return fx.Name, nil
	}
	return "", nil
}

var primitiveNames = map[string]bool{"NewBatch": true, "Set": true, "Del": true, "Write": true, "DropAll": true, "Commit": true,
	"RevertDiff": true, "deleteBlock": true, "reverter": true}

type ctx struct {
	org     string
	tenv    map[string]string
	env     map[string]aval
	effects *[]effect
	nbatch  *int
	stack   []*fdecl
	batchAt map[token.Pos]aval
}

func (c *ctx) eval(e ast.Expr) aval {
	switch x := e.(type) {
	case *ast.Ident:
		if v, ok := c.env[x.Name]; ok {
			return v
		}
	case *ast.SelectorExpr:
		if x.Sel.Name == "database" || x.Sel.Name == "blockchainDB" {
			return aval{kind: "db"}
		}
	case *ast.ParenExpr:
		return c.eval(x.X)
	case *ast.CallExpr:
		name, recv := calleeName(x)
		if name == "LastBlock" {
			return aval{kind: "tip"}
		}
		if name == "NewBatch" && recv != nil && c.eval(recv).kind == "db" {
			if v, ok := c.batchAt[x.Pos()]; ok {
				return v
			}
			*c.nbatch++
			v := aval{kind: "batch", n: *c.nbatch}
			c.batchAt[x.Pos()] = v
			if os.Getenv("MUTDBG") != "" {
				names := []string{}
				for _, s := range c.stack {
					names = append(names, s.full)
				}
				fmt.Fprintln(os.Stderr, "NEW via", strings.Join(names, " > "))
			}
			*c.effects = append(*c.effects, effect{kind: "new", obj: v, org: c.org})
			return v
		}
	}
	return aval{kind: "unk"}
}

func (c *ctx) emitStage(obj aval, what string) {
	switch obj.kind {
	case "db":
		*c.effects = append(*c.effects, effect{kind: "direct", obj: obj, what: what, org: c.org})
	case "batch", "param":
		*c.effects = append(*c.effects, effect{kind: "stage", obj: obj, org: c.org})
	}
}

func analyze(f *fdecl, args []aval, parent *ctx) {
	c := &ctx{org: f.rel, env: map[string]aval{}, tenv: map[string]string{}, effects: parent.effects, nbatch: parent.nbatch,
		stack: append(append([]*fdecl{}, parent.stack...), f), batchAt: map[token.Pos]aval{}}
	if f.d.Recv != nil && len(f.d.Recv.List) == 1 && len(f.d.Recv.List[0].Names) == 1 {
		c.tenv[f.d.Recv.List[0].Names[0].Name] = recvType(f.d)
	}
	i := 0
	for _, fl := range f.d.Type.Params.List {
		if len(fl.Names) == 0 {
			i++
			continue
		}
		for _, nm := range fl.Names {
			if i < len(args) {
				c.env[nm.Name] = args[i]
			} else {
				c.env[nm.Name] = aval{kind: "unk"}
			}
			c.tenv[nm.Name] = typeName(fl.Type)
			i++
		}
	}
	ast.Inspect(f.d.Body, func(n ast.Node) bool {
		switch x := n.(type) {
		case *ast.AssignStmt:
			if len(x.Lhs) == len(x.Rhs) {
				for k := range x.Lhs {
					if id, ok := x.Lhs[k].(*ast.Ident); ok && id.Name != "_" {
						c.env[id.Name] = c.eval(x.Rhs[k])
						c.tenv[id.Name] = c.typeOf(x.Rhs[k])
					}
				}
			} else if len(x.Rhs) == 1 {
				for k := range x.Lhs {
					if id, ok := x.Lhs[k].(*ast.Ident); ok && id.Name != "_" {
						c.env[id.Name] = aval{kind: "unk"}
						c.tenv[id.Name] = ""
						if k == 0 {
							c.tenv[id.Name] = c.typeOf(x.Rhs[0])
						}
					}
				}
			}
		case *ast.CallExpr:
			name, recv := calleeName(x)
			rv := aval{kind: "unk"}
			if recv != nil {
				rv = c.eval(recv)
			}
			switch name {
			case "NewBatch":
				c.eval(x) // registers the batch
			case "Set", "Del":
				c.emitStage(rv, name+" on the database handle in "+f.full)
			case "DropAll":
				if rv.kind == "db" {
					*c.effects = append(*c.effects, effect{kind: "direct", obj: rv, what: "DropAll in " + f.full, org: c.org})
				}
			case "Write":
				if rv.kind == "db" && len(x.Args) == 1 {
					*c.effects = append(*c.effects, effect{kind: "write", obj: c.eval(x.Args[0]), what: f.full, org: c.org})
				}
			case "Commit", "RevertDiff":
				if len(x.Args) > 0 {
					c.emitStage(c.eval(x.Args[0]), name+" into the database handle in "+f.full)
				}
			case "deleteBlock", "reverter":
				if len(x.Args) >= 2 {
					*c.effects = append(*c.effects, effect{kind: "delcall", obj: c.eval(x.Args[1]), what: f.full})
				}
			}
			if len(c.stack) < 10 {
				for _, cand := range c.resolve(x) {
					if !relevant[cand] {
						continue
					}
					rec := false
					for _, s := range c.stack {
						if s == cand {
							rec = true
						}
					}
					if rec {
						continue
					}
					av := make([]aval, len(x.Args))
					for k, a := range x.Args {
						av[k] = c.eval(a)
					}
					analyze(cand, av, c)
				}
			}
		}
		return true
	})
}

func rootAnalyze(f *fdecl) []effect {
	var eff []effect
	nb := 0
	args := []aval{}
	n := 0
	for _, fl := range f.d.Type.Params.List {
		k := len(fl.Names)
		if k == 0 {
			k = 1
		}
		for j := 0; j < k; j++ {
			args = append(args, aval{kind: "param", n: n})
			n++
		}
	}
	analyze(f, args, &ctx{effects: &eff, nbatch: &nb, tenv: map[string]string{}, env: map[string]aval{}})
	return eff
}

func q(s string) string { return "\"" + strings.ReplaceAll(s, "\"", "\"\"") + "\"" }

func main() {
	repo := flag.String("repo", "/repo", "repository root")
	out := flag.String("out", "", "output .v file")
	flag.Parse()
	fset := token.NewFileSet()
	for _, root := range []string{"pkg/blockchain", "pkg/consensus", "pkg/engine", "pkg/generator"} {
		err := filepath.Walk(filepath.Join(*repo, root), func(path string, info os.FileInfo, err error) error {
			if err != nil {
				return err
			}
			if info.IsDir() || !strings.HasSuffix(path, ".go") || strings.HasSuffix(path, "_test.go") || strings.HasSuffix(path, "_codec.go") {
				return nil
			}
			src, err := os.ReadFile(path)
			if err != nil {
				return err
			}
			if strings.HasPrefix(string(src), "//go:build verif") {
				return nil
			}
			f, err := parser.ParseFile(fset, path, src, 0)
			if err != nil {
				return err
			}
			rel, _ := filepath.Rel(filepath.Join(*repo, "pkg"), filepath.Dir(path))
			for _, decl := range f.Decls {
				if fd, ok := decl.(*ast.FuncDecl); ok && fd.Body != nil {
					x := &fdecl{rel: rel, name: fd.Name.Name, full: funcFull(fd), d: fd}
					funcs = append(funcs, x)
					byName[x.name] = append(byName[x.name], x)
					if rt := recvType(fd); rt != "" {
						if methods[rt] == nil {
							methods[rt] = map[string]*fdecl{}
						}
						methods[rt][x.name] = x
					} else {
						plain[x.name] = append(plain[x.name], x)
					}
				}
				if gd, ok := decl.(*ast.GenDecl); ok {
					for _, sp := range gd.Specs {
						ts, ok := sp.(*ast.TypeSpec)
						if !ok {
							continue
						}
						st, ok := ts.Type.(*ast.StructType)
						if !ok {
							continue
						}
						m := map[string]string{}
						for _, fl := range st.Fields.List {
							for _, nm := range fl.Names {
								m[nm.Name] = typeName(fl.Type)
							}
						}
						structs[ts.Name.Name] = m
					}
				}
			}
			return nil
		})
		if err != nil {
			fmt.Fprintln(os.Stderr, "mutators:", err)
			os.Exit(2)
		}
	}
	// relevant = can reach a primitive (fixpoint over the by-name call graph)
	calls := map[*fdecl][]string{}
	for _, f := range funcs {
		ast.Inspect(f.d.Body, func(n ast.Node) bool {
			if c, ok := n.(*ast.CallExpr); ok {
				name, _ := calleeName(c)
				if name != "" {
					calls[f] = append(calls[f], name)
					if primitiveNames[name] {
						relevant[f] = true
					}
				}
			}
			return true
		})
	}
	for changed := true; changed; {
		changed = false
		for _, f := range funcs {
			if relevant[f] {
				continue
			}
			for _, name := range calls[f] {
				for _, g := range byName[name] {
					if relevant[g] {
						relevant[f] = true
						changed = true
					}
				}
			}
		}
	}
	called := map[*fdecl]bool{}
	for _, f := range funcs {
		for _, name := range calls[f] {
			for _, g := range byName[name] {
				if g != f {
					called[g] = true
				}
			}
		}
	}

	// ---- (b) per exported step
	steps := []string{"Executer.processValidated", "Executer.processGenesisBlock", "Executer.deleteBlock", "Chain.AddBlock", "Chain.RemoveBlock",
		"DataAccess.ClearTempBlocks"}
	var stepLines []string
	for _, sname := range steps {
		var f *fdecl
		for _, g := range funcs {
			if g.full == sname {
				f = g
			}
		}
		if f == nil {
			fmt.Fprintln(os.Stderr, "mutators: step function not found (fail closed):", sname)
			os.Exit(2)
		}
		eff := rootAnalyze(f)
		news, writes, direct := []string{}, []string{}, []string{}
		staged := map[string]bool{}
		for _, e := range eff {
			switch e.kind {
			case "new":
				news = append(news, e.obj.String())
			case "stage":
				staged[e.obj.String()] = true
			case "write":
				writes = append(writes, e.obj.String())
			case "direct":
				direct = append(direct, e.what)
			}
		}
		st := []string{}
		for k := range staged {
			st = append(st, k)
		}
		sort.Strings(st)
		sort.Strings(direct)
		stepLines = append(stepLines, fmt.Sprintf("  (%s, %s)", q(sname), q(fmt.Sprintf("batches created [%s]; staged into {%s}; durable commits [%s]; direct database writes [%s]",
			strings.Join(news, ","), strings.Join(st, ","), strings.Join(writes, ","), strings.Join(direct, " | ")))))
	}

	// ---- (a) global, (c) origin of the blocks handed to deleteBlock
	nWrite := 0
	outside := map[string]bool{} // pkg/engine, pkg/generator hold the engine database handle (field blockchainDB): they must only read it
	directAll := map[string]bool{}
	delCalls, delBad := 0, []string{}
	for _, f := range funcs {
		if !relevant[f] {
			continue
		}
		for _, e := range rootAnalyze(f) {
			if (strings.HasPrefix(e.org, "engine") || strings.HasPrefix(e.org, "generator")) && (e.kind == "new" || e.kind == "write" || e.kind == "direct" || (e.kind == "stage" && e.obj.kind == "batch")) {
				outside[e.org+" (reached from "+f.full+") "+e.kind] = true
			}
			switch e.kind {
			case "direct":
				directAll[e.what] = true
			case "delcall":
				switch {
				case e.obj.kind == "tip":
					delCalls++
				case e.obj.kind == "param" && called[f]:
					// judged where f is called, with the real binding
				default:
					delBad = append(delBad, fmt.Sprintf("%s (reached from %s): %s", e.what, f.full, e.obj))
				}
			}
		}
		// syntactic DB.Write call sites of this function alone
		c := &ctx{env: map[string]aval{}, tenv: map[string]string{}}
		ast.Inspect(f.d.Body, func(n ast.Node) bool {
			if call, ok := n.(*ast.CallExpr); ok {
				if name, recv := calleeName(call); name == "Write" && recv != nil && c.eval(recv).kind == "db" {
					nWrite++
				}
			}
			return true
		})
	}
	dl := []string{}
	for k := range directAll {
		dl = append(dl, k)
	}
	sort.Strings(dl)
	sort.Strings(delBad)
	ol := []string{}
	for k := range outside {
		ol = append(ol, k)
	}
	sort.Strings(ol)
	if nWrite == 0 || delCalls == 0 {
		fmt.Fprintln(os.Stderr, "mutators: no database.Write / deleteBlock call found (fail closed)")
		os.Exit(2)
	}

	var sb strings.Builder
	sb.WriteString("(* GENERATED by translate/mutators from /repo, directories pkg/blockchain and pkg/consensus (recursively). Do not edit. *)\n")
	sb.WriteString("From Coq Require Import List String NArith.\nImport ListNotations.\nLocal Open Scope string_scope.\n\n")
	sb.WriteString("(* per exported step, callees inlined: batches created, objects staged into, durable commits, direct writes *)\n")
	sb.WriteString("Definition found_steps : list (string * string) := [\n" + strings.Join(stepLines, ";\n") + "\n].\n\n")
	sb.WriteString("(* whole packages: database.Write call sites; direct writes (also through a parameter bound to the database handle) *)\n")
	fmt.Fprintf(&sb, "Definition found_global : list string := [\n  %s;\n  %s;\n  %s\n].\n\n", q(fmt.Sprintf("database.Write call sites: %d", nWrite)),
		q("direct database writes: ["+strings.Join(dl, " | ")+"]"),
		q("batches / commits / writes on the engine database from pkg/engine or pkg/generator: ["+strings.Join(ol, " | ")+"]"))
	sb.WriteString("(* every block handed to deleteBlock / reverter originates from LastBlock() (local assignments and helper parameters followed) *)\n")
	fmt.Fprintf(&sb, "Definition found_delete_origin : list string := [\n  %s\n].\n", q("block arguments not originating from LastBlock(): ["+strings.Join(delBad, " | ")+"]"))
	if *out == "" {
		fmt.Print(sb.String())
		return
	}
	old, err := os.ReadFile(*out)
	if err == nil && string(old) == sb.String() {
		return
	}
	if err := os.WriteFile(*out, []byte(sb.String()), 0o644); err != nil {
		fmt.Fprintln(os.Stderr, "mutators:", err)
		os.Exit(2)
	}
}
