// Command skeletons extracts lock/blocking skeletons of the concurrent components of lisk-engine
// (go/ast only, no type checker) and writes them as Coq terms to coq/Gen/Skeletons.v.
//
// For every function/method of the listed files it emits a `prog` (LE.Conc.Skeleton) that keeps:
//   - Lock/RLock/Unlock/RUnlock (also through RLocker(), also deferred) on struct fields of type sync.Mutex/RWMutex,
//   - operations that may block: channel send/receive, range over a channel, select, WaitGroup.Wait, errgroup Wait,
//   - goroutine creation (go statements, errgroup.Go),
//   - calls to functions/methods defined in the listed files, inlined (bounded depth, no recursion),
//   - other calls through struct fields / function values as opaque `Call`,
//   - control flow (if/switch/select => Alt, for/range => Loop, return/break/continue paths made explicit).
//
// It fails closed: any lock idiom or construct it does not understand aborts the run with a non-zero exit
// status and no output file change, which the check reports as an undischarged obligation.
package main

import (
	"encoding/json"
	"flag"
	"fmt"
	"go/ast"
	"go/parser"
	"go/token"
	"os"
	"path/filepath"
	"regexp"
	"sort"
	"strings"
)

var listed = []string{
	"pkg/txpool/txpool.go",
	"pkg/txpool/txlist.go",
	"pkg/blockchain/block_cache.go",
	"pkg/blockchain/data_access.go",
	"pkg/blockchain/chain.go",
	"pkg/consensus/certificate/pool.go",
	"pkg/event/event.go",
	"pkg/db/diffdb/db.go",
	"pkg/consensus/sync/block_sync.go",
	"pkg/consensus/sync/sync.go",
}

var pGuarded = &prog{kind: "guarded"}

const maxDepth = 8

// ---------------------------------------------------------------- prog

type prog struct {
	kind string // skip acq rel block call seq alt loop go
	lock string
	mode string
	a, b *prog
}

var pSkip = &prog{kind: "skip"}
var pBlock = &prog{kind: "block"}
var pCall = &prog{kind: "call"}

func (p *prog) isSkip() bool { return p == nil || p.kind == "skip" }

// benign: no lock operation, nothing blocking, no goroutine - only opaque calls and control flow
func (p *prog) benign() bool {
	if p == nil {
		return true
	}
	switch p.kind {
	case "skip", "call":
		return true
	case "seq", "alt":
		return p.a.benign() && p.b.benign()
	case "loop":
		return p.a.benign()
	}
	return false
}

func (p *prog) key() string {
	switch p.kind {
	case "skip", "block", "call", "guarded":
		return p.kind
	case "acq", "rel":
		return p.kind + "(" + p.lock + "," + p.mode + ")"
	case "seq", "alt":
		return p.kind + "(" + p.a.key() + "," + p.b.key() + ")"
	default:
		return p.kind + "(" + p.a.key() + ")"
	}
}

func seq(ps ...*prog) *prog {
	var items []*prog
	var flat func(p *prog)
	flat = func(p *prog) {
		if p == nil || p.kind == "skip" {
			return
		}
		if p.kind == "seq" {
			flat(p.a)
			flat(p.b)
			return
		}
		items = append(items, p)
	}
	for _, p := range ps {
		flat(p)
	}
	if len(items) == 0 {
		return pSkip
	}
	res := items[len(items)-1]
	for i := len(items) - 2; i >= 0; i-- {
		// consecutive opaque calls collapse
		if items[i].kind == "call" && res.kind == "call" {
			continue
		}
		if items[i].kind == "call" && res.kind == "seq" && res.a.kind == "call" {
			continue
		}
		res = &prog{kind: "seq", a: items[i], b: res}
	}
	return res
}

// altN: nil means "no such path"
func altN(a, b *prog) *prog {
	if a == nil {
		return b
	}
	if b == nil {
		return a
	}
	if a.key() == b.key() {
		return a
	}
	// Alt(x, Alt(x, y)) = Alt(x, y)
	if b.kind == "alt" && (b.a.key() == a.key() || b.b.key() == a.key()) {
		return b
	}
	if a.kind == "alt" && (a.a.key() == b.key() || a.b.key() == b.key()) {
		return a
	}
	return &prog{kind: "alt", a: a, b: b}
}

func loop(a *prog) *prog {
	if a.isSkip() {
		return pSkip
	}
	if a.kind == "loop" {
		return a
	}
	return &prog{kind: "loop", a: a}
}

func goP(a *prog) *prog {
	if a.isSkip() {
		return pSkip
	}
	return &prog{kind: "go", a: a}
}

type paths struct{ ft, ret, brk, cont *prog }

func simple(p *prog) paths { return paths{ft: p} }

func seqOpt(a, b *prog) *prog {
	if a == nil || b == nil {
		return nil
	}
	return seq(a, b)
}

func seqPaths(a, b paths) paths {
	return paths{
		ft:   seqOpt(a.ft, b.ft),
		ret:  altN(a.ret, seqOpt(a.ft, b.ret)),
		brk:  altN(a.brk, seqOpt(a.ft, b.brk)),
		cont: altN(a.cont, seqOpt(a.ft, b.cont)),
	}
}

func altPaths(a, b paths) paths {
	return paths{ft: altN(a.ft, b.ft), ret: altN(a.ret, b.ret), brk: altN(a.brk, b.brk), cont: altN(a.cont, b.cont)}
}

// ---------------------------------------------------------------- universe

type typ struct {
	e   ast.Expr
	pkg *pkgInfo
	ext bool // a value produced by code outside the translated packages (its methods are provably not ours)
}

// external: t is a type of a package that is not translated (db.DB, p2p.Connection, ...), or a value obtained from one
func (u *universe) external(t *typ) bool {
	if t == nil {
		return false
	}
	if t.ext {
		return true
	}
	if se, ok := strip(t.e).(*ast.SelectorExpr); ok {
		if id, ok := se.X.(*ast.Ident); ok {
			if id.Name == "sync" { // the standard library's sync, never consensus/sync under that name in the listed files
				return false
			}
			return u.pkgs[id.Name] == nil
		}
	}
	return false
}

type structInfo struct {
	embedded []string // names of embedded fields (keys of fields)
	pkg      *pkgInfo
	name     string
	fields   map[string]ast.Expr
	methods  map[string]*funcInfo
	iface    bool
}

type funcInfo struct {
	pkg    *pkgInfo
	file   string
	fileA  *ast.File
	listed bool
	decl   *ast.FuncDecl
	recv   *structInfo
	name   string
	done   bool
	busy   bool
	prog   *prog
}

func (f *funcInfo) key() string {
	if f.recv != nil {
		return f.recv.name + "." + f.name
	}
	return f.pkg.name + "." + f.name
}

type pkgInfo struct {
	name    string
	dir     string
	structs map[string]*structInfo
	types   map[string]ast.Expr // non-struct named types: underlying expression
	funcs   map[string]*funcInfo
}

type universe struct {
	repo                 string
	fset                 *token.FileSet
	pkgs                 map[string]*pkgInfo // by package name
	errs                 []string
	opaque               map[string]bool
	live                 map[string]bool
	fanouts              map[string]string
	allFuncs             []*funcInfo
	goCount              map[string]int
	racyWrites           []string
	perIterationLoopVars bool // go.mod language version >= 1.22
}

// newGoSite registers one `go` statement / errgroup.Go of the function being translated
func (c *ctx) newGoSite(kind string) string {
	c.u.goCount[c.site]++
	id := fmt.Sprintf("%s#%d", c.site, c.u.goCount[c.site])
	c.u.fanouts[id] = kind
	return id
}

func (u *universe) failf(pos token.Pos, format string, args ...interface{}) {
	p := u.fset.Position(pos)
	rel, _ := filepath.Rel(u.repo, p.Filename)
	u.errs = append(u.errs, fmt.Sprintf("%s:%d: %s", rel, p.Line, fmt.Sprintf(format, args...)))
}

func (u *universe) load(dir string) {
	full := filepath.Join(u.repo, dir)
	ents, err := os.ReadDir(full)
	if err != nil {
		u.errs = append(u.errs, fmt.Sprintf("%s: %v", dir, err))
		return
	}
	var pi *pkgInfo
	type pending struct {
		fd   *ast.FuncDecl
		file string
		fa   *ast.File
	}
	var methods []pending
	for _, e := range ents {
		n := e.Name()
		if e.IsDir() || !strings.HasSuffix(n, ".go") || strings.HasSuffix(n, "_test.go") || strings.HasSuffix(n, "_verif.go") {
			continue
		}
		f, err := parser.ParseFile(u.fset, filepath.Join(full, n), nil, parser.SkipObjectResolution)
		if err != nil {
			u.errs = append(u.errs, fmt.Sprintf("%s/%s: %v", dir, n, err))
			continue
		}
		if pi == nil {
			pi = &pkgInfo{name: f.Name.Name, dir: dir, structs: map[string]*structInfo{}, types: map[string]ast.Expr{}, funcs: map[string]*funcInfo{}}
		}
		rel := dir + "/" + n
		for _, d := range f.Decls {
			switch d := d.(type) {
			case *ast.GenDecl:
				for _, sp := range d.Specs {
					ts, ok := sp.(*ast.TypeSpec)
					if !ok {
						continue
					}
					switch t := ts.Type.(type) {
					case *ast.StructType:
						si := &structInfo{pkg: pi, name: ts.Name.Name, fields: map[string]ast.Expr{}, methods: map[string]*funcInfo{}}
						for _, fl := range t.Fields.List {
							for _, nm := range fl.Names {
								si.fields[nm.Name] = fl.Type
							}
							if len(fl.Names) == 0 { // embedded
								si.embedded = append(si.embedded, embeddedName(fl.Type))
								si.fields[embeddedName(fl.Type)] = fl.Type
							}
						}
						pi.structs[ts.Name.Name] = si
					case *ast.InterfaceType:
						pi.structs[ts.Name.Name] = &structInfo{pkg: pi, name: ts.Name.Name, fields: map[string]ast.Expr{}, methods: map[string]*funcInfo{}, iface: true}
					default:
						pi.types[ts.Name.Name] = ts.Type
					}
				}
			case *ast.FuncDecl:
				methods = append(methods, pending{d, rel, f})
			}
		}
	}
	if pi == nil {
		return
	}
	for _, m := range methods {
		fi := &funcInfo{pkg: pi, file: m.file, fileA: m.fa, decl: m.fd, name: m.fd.Name.Name}
		fi.listed = true // ALL files of a package that contains a listed file are translated (callees are inlined, never opaque)
		if m.fd.Recv != nil && len(m.fd.Recv.List) == 1 {
			rn := embeddedName(m.fd.Recv.List[0].Type)
			si := pi.structs[rn]
			if si == nil {
				// method on a non-struct named type (e.g. a slice type): register a method holder
				si = &structInfo{pkg: pi, name: rn, fields: map[string]ast.Expr{}, methods: map[string]*funcInfo{}}
				pi.structs[rn] = si
			}
			fi.recv = si
			si.methods[fi.name] = fi
		} else {
			pi.funcs[fi.name] = fi
		}
		u.allFuncs = append(u.allFuncs, fi)
	}
	u.pkgs[pi.name] = pi
}

func embeddedName(e ast.Expr) string {
	switch t := e.(type) {
	case *ast.StarExpr:
		return embeddedName(t.X)
	case *ast.Ident:
		return t.Name
	case *ast.SelectorExpr:
		return t.Sel.Name
	case *ast.IndexExpr:
		return embeddedName(t.X)
	}
	return "?"
}

func strip(e ast.Expr) ast.Expr {
	for {
		switch t := e.(type) {
		case *ast.StarExpr:
			e = t.X
		case *ast.ParenExpr:
			e = t.X
		default:
			return e
		}
	}
}

func isQualified(t *typ, pkg string, names ...string) bool {
	if t == nil || t.e == nil {
		return false
	}
	se, ok := strip(t.e).(*ast.SelectorExpr)
	if !ok {
		return false
	}
	id, ok := se.X.(*ast.Ident)
	if !ok || id.Name != pkg {
		return false
	}
	for _, n := range names {
		if se.Sel.Name == n {
			return true
		}
	}
	return false
}

func (u *universe) structOf(t *typ) *structInfo {
	if t == nil || t.e == nil {
		return nil
	}
	switch e := strip(t.e).(type) {
	case *ast.Ident:
		if t.pkg != nil {
			return t.pkg.structs[e.Name]
		}
	case *ast.SelectorExpr:
		if id, ok := e.X.(*ast.Ident); ok && id.Name != "sync" {
			if p := u.pkgs[id.Name]; p != nil {
				return p.structs[e.Sel.Name]
			}
		}
	}
	return nil
}

// underlying container expression of t (follows one level of named non-struct types)
func (u *universe) container(t *typ) *typ {
	if t == nil || t.e == nil {
		return nil
	}
	switch e := strip(t.e).(type) {
	case *ast.MapType, *ast.ArrayType, *ast.ChanType:
		return &typ{e: e.(ast.Expr), pkg: t.pkg}
	case *ast.Ident:
		if t.pkg != nil {
			if ue, ok := t.pkg.types[e.Name]; ok {
				return u.container(&typ{e: ue, pkg: t.pkg})
			}
		}
	case *ast.SelectorExpr:
		if id, ok := e.X.(*ast.Ident); ok {
			if p := u.pkgs[id.Name]; p != nil && id.Name != "sync" {
				if ue, ok := p.types[e.Sel.Name]; ok {
					return u.container(&typ{e: ue, pkg: p})
				}
			}
		}
	}
	return nil
}

func (u *universe) elemOf(t *typ) *typ {
	c := u.container(t)
	if c == nil {
		return nil
	}
	switch e := c.e.(type) {
	case *ast.MapType:
		return &typ{e: e.Value, pkg: c.pkg}
	case *ast.ArrayType:
		return &typ{e: e.Elt, pkg: c.pkg}
	case *ast.ChanType:
		return &typ{e: e.Value, pkg: c.pkg}
	}
	return nil
}

func (u *universe) isChan(t *typ) bool {
	c := u.container(t)
	if c == nil {
		return false
	}
	_, ok := c.e.(*ast.ChanType)
	return ok
}

func (u *universe) isMap(t *typ) bool {
	c := u.container(t)
	if c == nil {
		return false
	}
	_, ok := c.e.(*ast.MapType)
	return ok
}

// ---------------------------------------------------------------- per-function context

type ctx struct {
	u         *universe
	fn        *funcInfo
	env       map[string]*typ
	imports   map[string]bool
	deferred  []*prog
	depth     int
	top       bool
	inGo      bool              // translating the body of a goroutine literal
	litOwn    map[string]bool   // identifiers declared inside the current goroutine literal
	goSite    string            // key of the go site whose literal is being translated
	loopFresh map[string]bool   // identifiers declared (:=, var) inside the body of the innermost enclosing loop: fresh per iteration
	prov      map[string]string // copy -> the identifier it was initialised from (i := i, h := height, go func(i int){}(i))
	loopVars  map[string]bool   // iteration variables of the enclosing loops (for i := ...; range k, v)
	site      string
}

func importNames(f *ast.File) map[string]bool {
	m := map[string]bool{}
	for _, im := range f.Imports {
		if im.Name != nil {
			m[im.Name.Name] = true
			continue
		}
		p := strings.Trim(im.Path.Value, `"`)
		m[p[strings.LastIndex(p, "/")+1:]] = true
	}
	return m
}

func (c *ctx) child() *ctx {
	env := map[string]*typ{}
	for k, v := range c.env {
		env[k] = v
	}
	return &ctx{u: c.u, fn: c.fn, env: env, imports: c.imports, depth: c.depth, site: c.site, goSite: c.goSite, loopFresh: c.loopFresh, prov: c.prov, loopVars: c.loopVars}
}

func (c *ctx) bindFields(fl *ast.FieldList, pkg *pkgInfo) {
	if fl == nil {
		return
	}
	for _, f := range fl.List {
		for _, n := range f.Names {
			c.env[n.Name] = &typ{e: f.Type, pkg: pkg}
			if c.litOwn != nil {
				c.litOwn[n.Name] = true
			}
		}
	}
}

func (c *ctx) typeOf(e ast.Expr) *typ {
	u := c.u
	switch e := e.(type) {
	case *ast.Ident:
		return c.env[e.Name]
	case *ast.ParenExpr:
		return c.typeOf(e.X)
	case *ast.StarExpr:
		return c.typeOf(e.X)
	case *ast.UnaryExpr:
		if e.Op == token.ARROW {
			return u.elemOf(c.typeOf(e.X))
		}
		return c.typeOf(e.X)
	case *ast.SelectorExpr:
		if st := u.structOf(c.typeOf(e.X)); st != nil {
			if ft, ok := st.fields[e.Sel.Name]; ok {
				return &typ{e: ft, pkg: st.pkg}
			}
		}
		return nil
	case *ast.IndexExpr:
		return u.elemOf(c.typeOf(e.X))
	case *ast.SliceExpr:
		return c.typeOf(e.X)
	case *ast.CompositeLit:
		if e.Type != nil {
			return &typ{e: e.Type, pkg: c.fn.pkg}
		}
		return nil
	case *ast.TypeAssertExpr:
		if e.Type != nil {
			return &typ{e: e.Type, pkg: c.fn.pkg}
		}
		return nil
	case *ast.CallExpr:
		rs := c.resultTypes(e)
		if len(rs) > 0 {
			return rs[0]
		}
		if se, ok := e.Fun.(*ast.SelectorExpr); ok && u.external(c.typeOf(se.X)) {
			return &typ{ext: true}
		}
		return nil
	}
	return nil
}

func (c *ctx) resultTypes(e *ast.CallExpr) []*typ {
	u := c.u
	res := func(fi *funcInfo) []*typ {
		var out []*typ
		if fi.decl.Type.Results == nil {
			return nil
		}
		for _, f := range fi.decl.Type.Results.List {
			n := len(f.Names)
			if n == 0 {
				n = 1
			}
			for i := 0; i < n; i++ {
				out = append(out, &typ{e: f.Type, pkg: fi.pkg})
			}
		}
		return out
	}
	switch f := e.Fun.(type) {
	case *ast.Ident:
		if (f.Name == "new" || f.Name == "make") && len(e.Args) > 0 {
			return []*typ{{e: e.Args[0], pkg: c.fn.pkg}}
		}
		if _, local := c.env[f.Name]; !local {
			if fi := c.fn.pkg.funcs[f.Name]; fi != nil {
				return res(fi)
			}
			if _, ok := c.fn.pkg.structs[f.Name]; ok { // conversion
				return []*typ{{e: f, pkg: c.fn.pkg}}
			}
			if _, ok := c.fn.pkg.types[f.Name]; ok {
				return []*typ{{e: f, pkg: c.fn.pkg}}
			}
		}
	case *ast.SelectorExpr:
		if st := u.structOf(c.typeOf(f.X)); st != nil {
			if m := st.methods[f.Sel.Name]; m != nil {
				return res(m)
			}
		}
		if id, ok := f.X.(*ast.Ident); ok && c.env[id.Name] == nil {
			if p := u.pkgs[id.Name]; p != nil && c.imports[id.Name] && id.Name != "sync" {
				if fi := p.funcs[f.Sel.Name]; fi != nil {
					return res(fi)
				}
			}
		}
	}
	return nil
}

// mutexField: X is <expr>.<field> where field is declared with type sync.Mutex/RWMutex in a known struct
func (c *ctx) mutexField(x ast.Expr) (string, bool) {
	se, ok := x.(*ast.SelectorExpr)
	if !ok {
		return "", false
	}
	st := c.u.structOf(c.typeOf(se.X))
	if st == nil {
		return "", false
	}
	ft, ok := st.fields[se.Sel.Name]
	if !ok || !isQualified(&typ{e: ft, pkg: st.pkg}, "sync", "Mutex", "RWMutex") {
		return "", false
	}
	return st.name + "." + se.Sel.Name, true
}

var lockMethods = map[string]bool{"Lock": true, "Unlock": true, "RLock": true, "RUnlock": true, "RLocker": true, "TryLock": true, "TryRLock": true}

var builtins = map[string]bool{"append": true, "len": true, "cap": true, "make": true, "new": true, "copy": true, "delete": true,
	"panic": true, "close": true, "string": true, "uint8": true, "uint16": true, "uint32": true, "uint64": true, "int": true, "int8": true,
	"int16": true, "int32": true, "int64": true, "float64": true, "float32": true, "byte": true, "bool": true, "uint": true, "print": true,
	"println": true, "min": true, "max": true, "recover": true, "rune": true, "error": true}

// lockOp recognises the supported lock idioms; returns nil,false if e is not a lock operation at all
func (c *ctx) lockOp(e *ast.CallExpr) (*prog, bool) {
	se, ok := e.Fun.(*ast.SelectorExpr)
	if !ok || !lockMethods[se.Sel.Name] {
		return nil, false
	}
	name := se.Sel.Name
	if inner, ok := se.X.(*ast.CallExpr); ok {
		// x.mutex.RLocker().Lock() / .Unlock()
		if ise, ok := inner.Fun.(*ast.SelectorExpr); ok && ise.Sel.Name == "RLocker" {
			if l, ok := c.mutexField(ise.X); ok {
				switch name {
				case "Lock":
					return &prog{kind: "acq", lock: l, mode: "R"}, true
				case "Unlock":
					return &prog{kind: "rel", lock: l, mode: "R"}, true
				}
			}
		}
		c.u.failf(e.Pos(), "unrecognised lock idiom %s on a call result", name)
		return pSkip, true
	}
	l, ok := c.mutexField(se.X)
	if !ok {
		// a method that merely shares a name with the lock API on a known, lock-free type is not a lock idiom
		if st := c.u.structOf(c.typeOf(se.X)); st != nil && st.methods[name] != nil {
			return nil, false
		}
		c.u.failf(e.Pos(), "unrecognised lock idiom: .%s() on something that is not a struct field of type sync.Mutex/RWMutex", name)
		return pSkip, true
	}
	switch name {
	case "Lock":
		return &prog{kind: "acq", lock: l, mode: "W"}, true
	case "Unlock":
		return &prog{kind: "rel", lock: l, mode: "W"}, true
	case "RLock":
		return &prog{kind: "acq", lock: l, mode: "R"}, true
	case "RUnlock":
		return &prog{kind: "rel", lock: l, mode: "R"}, true
	}
	c.u.failf(e.Pos(), "unsupported lock operation %s", name)
	return pSkip, true
}

func (c *ctx) effs(es []ast.Expr) *prog {
	var ps []*prog
	for _, e := range es {
		ps = append(ps, c.eff(e))
	}
	return seq(ps...)
}

func (c *ctx) eff(e ast.Expr) *prog {
	switch e := e.(type) {
	case nil:
		return pSkip
	case *ast.CallExpr:
		return c.call(e)
	case *ast.UnaryExpr:
		if e.Op == token.ARROW {
			return seq(c.eff(e.X), pBlock)
		}
		return c.eff(e.X)
	case *ast.BinaryExpr:
		return seq(c.eff(e.X), c.eff(e.Y))
	case *ast.ParenExpr:
		return c.eff(e.X)
	case *ast.StarExpr:
		return c.eff(e.X)
	case *ast.SelectorExpr:
		// a selector evaluated as a VALUE (not called here): a method value would be called later through a variable
		if st := c.u.structOf(c.typeOf(e.X)); st != nil {
			if m := c.u.methodOf(st, e.Sel.Name, 0); m != nil && m.decl.Body != nil {
				if m.busy || !c.u.funcProg(m, c.depth+1, e.Pos()).benign() {
					c.u.failf(e.Pos(), "method value %s with lock/blocking effects (call it directly)", m.key())
				}
			}
		}
		return c.eff(e.X)
	case *ast.Ident:
		if _, local := c.env[e.Name]; !local {
			if fi := c.fn.pkg.funcs[e.Name]; fi != nil && fi.decl.Body != nil {
				if fi.busy || !c.u.funcProg(fi, c.depth+1, e.Pos()).benign() {
					c.u.failf(e.Pos(), "function value %s with lock/blocking effects (call it directly)", fi.key())
				}
			}
		}
		return pSkip
	case *ast.IndexExpr:
		return seq(c.eff(e.X), c.eff(e.Index))
	case *ast.SliceExpr:
		return seq(c.eff(e.X), c.eff(e.Low), c.eff(e.High), c.eff(e.Max))
	case *ast.TypeAssertExpr:
		return c.eff(e.X)
	case *ast.KeyValueExpr:
		return c.eff(e.Value)
	case *ast.CompositeLit:
		return c.effs(e.Elts)
	case *ast.FuncLit:
		p := c.funcLit(e, false)
		if !p.benign() {
			c.u.failf(e.Pos(), "function literal with lock/blocking operations in an unsupported position")
		}
		return pSkip
	}
	return pSkip
}

func (c *ctx) inline(fi *funcInfo, pos token.Pos) *prog {
	if !fi.listed {
		c.u.opaque[fi.key()] = true
		return pCall
	}
	if c.depth >= maxDepth {
		c.u.failf(pos, "inlining depth %d exceeded at call to %s", maxDepth, fi.key())
		return pCall
	}
	return c.u.funcProg(fi, c.depth+1, pos)
}

func (c *ctx) call(e *ast.CallExpr) *prog {
	u := c.u
	if p, ok := c.lockOp(e); ok {
		return p
	}
	// arguments first (function literals are handled per callee kind)
	var pre []*prog
	var lits []*ast.FuncLit
	for _, a := range e.Args {
		if fl, ok := a.(*ast.FuncLit); ok {
			lits = append(lits, fl)
			continue
		}
		if se, ok := a.(*ast.SelectorExpr); ok {
			// a method value handed to a callee (handler registration, callback): the callee may invoke it here
			if st := u.structOf(c.typeOf(se.X)); st != nil {
				if m := u.methodOf(st, se.Sel.Name, 0); m != nil && m.decl.Body != nil {
					if m.busy {
						u.failf(a.Pos(), "recursive method value %s", m.key())
					} else {
						pre = append(pre, c.eff(se.X), altN(pSkip, u.funcProg(m, c.depth+1, a.Pos())))
					}
					continue
				}
			}
		}
		pre = append(pre, c.eff(a))
	}
	litsInline := func() *prog {
		// callbacks given to library helpers (sort.Slice, ...) must be lock-free
		for _, fl := range lits {
			if p := c.funcLit(fl, false); !p.benign() {
				u.failf(fl.Pos(), "callback literal with lock/blocking operations")
			}
		}
		return pSkip
	}
	switch f := e.Fun.(type) {
	case *ast.SelectorExpr:
		name := f.Sel.Name
		tX := c.typeOf(f.X)
		if isQualified(tX, "sync", "WaitGroup") {
			litsInline()
			if name == "Wait" {
				return seq(seq(pre...), pBlock)
			}
			return seq(pre...)
		}
		if isQualified(tX, "errgroup", "Group") {
			if name == "Wait" {
				return seq(seq(pre...), pBlock)
			}
			if name == "Go" && len(lits) == 1 && len(e.Args) == 1 {
				return goP(c.funcLit(lits[0], true))
			}
			u.failf(e.Pos(), "unsupported errgroup use %s", name)
			return pSkip
		}
		if isQualified(tX, "sync", "Mutex", "RWMutex", "Once", "Cond") {
			u.failf(e.Pos(), "unsupported sync primitive use .%s()", name)
			return pSkip
		}
		if id, ok := f.X.(*ast.Ident); ok && c.env[id.Name] == nil && c.imports[id.Name] {
			// function of an imported package
			if p := u.pkgs[id.Name]; p != nil && id.Name != "sync" {
				if fi := p.funcs[name]; fi != nil {
					litsInline()
					return seq(seq(pre...), c.inline(fi, e.Pos()))
				}
			}
			if id.Name == "sync" || id.Name == "errgroup" || id.Name == "atomic" || id.Name == "semaphore" {
				if name != "WaitGroup" {
					u.failf(e.Pos(), "unsupported use of %s.%s", id.Name, name)
				}
			}
			litsInline()
			return seq(pre...) // library call: no effect on our locks
		}
		recvEff := c.eff(f.X)
		if st := u.structOf(tX); st != nil {
			if m := u.methodOf(st, name, 0); m != nil {
				litsInline()
				mp := c.inline(m, e.Pos())
				if c.inGo && c.litOwn != nil && c.goSite != "" {
					// a goroutine calling a method that writes its receiver's fields, on a value shared with the spawner,
					// without that method taking a lock of the receiver
					if root := rootIdent(f.X); root != "" && !c.litOwn[root] && !c.loopFresh[root] && mutatesReceiver(m) && !acquiresW(mp) {
						u.fanouts[c.goSite] = "racy"
						u.racyWrites = append(u.racyWrites, fmt.Sprintf("%s calls %s on captured %s", c.goSite, m.key(), root))
					}
				}
				return seq(recvEff, seq(pre...), mp)
			}
			if _, isField := st.fields[name]; isField || st.iface {
				litsInline()
				if name == "Wait" {
					u.failf(e.Pos(), "Wait() on an unknown object")
				}
				u.opaque[st.name+"."+name] = true
				return seq(recvEff, seq(pre...), pCall)
			}
		}
		litsInline()
		if name == "Wait" {
			u.failf(e.Pos(), "Wait() on an object of unknown type")
			return pSkip
		}
		// the receiver is not provably outside the translated packages: if any method of that name there has lock or
		// blocking effects, refuse (an unresolved callee must never silently become an opaque call)
		if st := u.structOf(tX); (tX == nil || st != nil) && !u.external(tX) {
			if k := u.nonBenignMethodNamed(name, e.Pos()); k != "" {
				u.failf(e.Pos(), "cannot resolve the receiver of .%s(), which may be %s (lock/blocking effects)", name, k)
				return pSkip
			}
		}
		if isLoggerExpr(f.X) {
			return seq(recvEff, seq(pre...))
		}
		if tX != nil {
			u.opaque[typeString(tX)+"."+name] = true
		} else {
			u.opaque["?."+name] = true
		}
		return seq(recvEff, seq(pre...), pCall)
	case *ast.Ident:
		if _, local := c.env[f.Name]; local {
			litsInline()
			u.opaque["func value "+f.Name] = true
			return seq(seq(pre...), pCall)
		}
		if fi := c.fn.pkg.funcs[f.Name]; fi != nil {
			litsInline()
			return seq(seq(pre...), c.inline(fi, e.Pos()))
		}
		litsInline()
		_, isStruct := c.fn.pkg.structs[f.Name]
		_, isType := c.fn.pkg.types[f.Name]
		if !builtins[f.Name] && !isStruct && !isType {
			u.failf(e.Pos(), "call of an identifier that is neither a builtin, a type, a local function value nor a function of the package: %s", f.Name)
		}
		return seq(pre...) // builtin or conversion
	case *ast.FuncLit:
		litsInline()
		return seq(seq(pre...), c.funcLit(f, false))
	case *ast.ParenExpr, *ast.ArrayType, *ast.MapType, *ast.StarExpr, *ast.InterfaceType, *ast.ChanType:
		litsInline()
		return seq(pre...)
	case *ast.IndexExpr:
		litsInline()
		return seq(seq(pre...), c.eff(f.X))
	case *ast.CallExpr:
		litsInline()
		return seq(c.call(f), seq(pre...), pCall)
	}
	u.failf(e.Pos(), "unsupported call form %T", e.Fun)
	return pSkip
}

// methodOf finds a method declared on st or promoted from an embedded struct of a loaded package.
func (u *universe) methodOf(st *structInfo, name string, depth int) *funcInfo {
	if m := st.methods[name]; m != nil {
		return m
	}
	if depth > 4 {
		return nil
	}
	for _, en := range st.embedded {
		if est := u.structOf(&typ{e: st.fields[en], pkg: st.pkg}); est != nil {
			if m := u.methodOf(est, name, depth+1); m != nil {
				return m
			}
		}
	}
	return nil
}

// nonBenignMethodNamed: some method with this name in a loaded package has lock/blocking effects
func (u *universe) nonBenignMethodNamed(name string, pos token.Pos) string {
	for _, p := range u.pkgs {
		for _, st := range p.structs {
			if m := st.methods[name]; m != nil && m.decl.Body != nil {
				if m.busy {
					return m.key()
				}
				if pr := u.funcProg(m, 1, pos); !pr.benign() {
					return m.key()
				}
			}
		}
	}
	return ""
}

func rootIdent(e ast.Expr) string {
	for {
		switch x := e.(type) {
		case *ast.Ident:
			return x.Name
		case *ast.SelectorExpr:
			e = x.X
		case *ast.IndexExpr:
			e = x.X
		case *ast.StarExpr:
			e = x.X
		case *ast.ParenExpr:
			e = x.X
		case *ast.CallExpr:
			e = x.Fun
		default:
			return ""
		}
	}
}

// mutatesReceiver: the method body assigns through its receiver (field write, element write, append to a field, delete)
func mutatesReceiver(m *funcInfo) bool {
	if m.decl.Recv == nil || len(m.decl.Recv.List) == 0 || len(m.decl.Recv.List[0].Names) == 0 || m.decl.Body == nil {
		return false
	}
	recv := m.decl.Recv.List[0].Names[0].Name
	found := false
	ast.Inspect(m.decl.Body, func(n ast.Node) bool {
		switch x := n.(type) {
		case *ast.AssignStmt:
			for _, l := range x.Lhs {
				if _, plain := l.(*ast.Ident); !plain && rootIdent(l) == recv {
					found = true
				}
			}
		case *ast.IncDecStmt:
			if _, plain := x.X.(*ast.Ident); !plain && rootIdent(x.X) == recv {
				found = true
			}
		case *ast.CallExpr:
			if id, ok := x.Fun.(*ast.Ident); ok && id.Name == "delete" && len(x.Args) > 0 && rootIdent(x.Args[0]) == recv {
				found = true
			}
		}
		return true
	})
	return found
}

func acquiresLock(p *prog, lock string) bool {
	if p == nil {
		return false
	}
	if p.kind == "acq" && p.lock == lock {
		return true
	}
	return acquiresLock(p.a, lock) || acquiresLock(p.b, lock)
}

func acquiresW(p *prog) bool {
	if p == nil {
		return false
	}
	if p.kind == "acq" && p.mode == "W" {
		return true
	}
	return acquiresW(p.a) || acquiresW(p.b)
}

func structHasMutex(st *structInfo) bool {
	for _, ft := range st.fields {
		if isQualified(&typ{e: ft, pkg: st.pkg}, "sync", "Mutex", "RWMutex") {
			return true
		}
	}
	return false
}

func isLoggerExpr(e ast.Expr) bool {
	switch x := e.(type) {
	case *ast.SelectorExpr:
		return strings.Contains(strings.ToLower(x.Sel.Name), "logger")
	case *ast.Ident:
		return strings.Contains(strings.ToLower(x.Name), "logger")
	}
	return false
}

func typeString(t *typ) string {
	if t.e == nil {
		return "<external value>"
	}
	switch e := strip(t.e).(type) {
	case *ast.Ident:
		return e.Name
	case *ast.SelectorExpr:
		if id, ok := e.X.(*ast.Ident); ok {
			return id.Name + "." + e.Sel.Name
		}
	}
	return "?"
}

// funcLit translates a function literal body; goroutine = body of a go statement / errgroup.Go
func (c *ctx) funcLit(fl *ast.FuncLit, goroutine bool) *prog {
	cc := c.child()
	cc.top = true
	if goroutine {
		cc.inGo = true
		cc.litOwn = map[string]bool{}
		cc.goSite = c.newGoSite("private")
	} else {
		cc.inGo = c.inGo
		cc.litOwn = c.litOwn
		cc.goSite = c.goSite
	}
	cc.bindFields(fl.Type.Params, c.fn.pkg)
	return cc.body(fl.Body, fl.Pos())
}

func (c *ctx) body(b *ast.BlockStmt, pos token.Pos) *prog {
	ps := c.list(b.List, true)
	if ps.brk != nil || ps.cont != nil {
		c.u.failf(pos, "break/continue escaping a function body")
	}
	var d []*prog
	for i := len(c.deferred) - 1; i >= 0; i-- {
		d = append(d, c.deferred[i])
	}
	res := altN(seqOpt(ps.ft, seq(d...)), ps.ret)
	if res == nil {
		c.u.failf(pos, "no path reaches the end of a function body in %s", c.site)
		return pSkip
	}
	return res
}

func (c *ctx) deferredNow() *prog {
	var d []*prog
	for i := len(c.deferred) - 1; i >= 0; i-- {
		d = append(d, c.deferred[i])
	}
	return seq(d...)
}

func (c *ctx) list(stmts []ast.Stmt, top bool) paths {
	saved := c.top
	c.top = top
	per := make([]paths, len(stmts))
	for i, s := range stmts {
		c.top = top
		per[i] = c.stmt(s)
	}
	c.top = saved
	acc := simple(pSkip)
	for i := len(per) - 1; i >= 0; i-- {
		acc = seqPaths(per[i], acc)
	}
	return acc
}

func (c *ctx) assign(lhs []ast.Expr, rhs []ast.Expr, define bool) {
	if define && len(lhs) == len(rhs) {
		for i := range lhs {
			if l, ok := lhs[i].(*ast.Ident); ok {
				if r, ok := rhs[i].(*ast.Ident); ok {
					c.prov[l.Name] = r.Name
				} else {
					delete(c.prov, l.Name)
				}
			}
		}
	}
	set := func(l ast.Expr, t *typ) {
		id, ok := l.(*ast.Ident)
		if !ok || id.Name == "_" {
			return
		}
		if define && c.litOwn != nil {
			c.litOwn[id.Name] = true
		}
		if define && c.loopFresh != nil {
			c.loopFresh[id.Name] = true
		}
		if t != nil || define {
			c.env[id.Name] = t
		}
	}
	if len(lhs) == len(rhs) {
		for i := range lhs {
			set(lhs[i], c.typeOf(rhs[i]))
		}
		return
	}
	if len(rhs) == 1 {
		switch r := rhs[0].(type) {
		case *ast.CallExpr:
			rs := c.resultTypes(r)
			for i := range lhs {
				if i < len(rs) {
					set(lhs[i], rs[i])
				} else {
					set(lhs[i], nil)
				}
			}
			return
		default:
			set(lhs[0], c.typeOf(r))
			for i := 1; i < len(lhs); i++ {
				set(lhs[i], nil)
			}
			return
		}
	}
}

// fan-out accumulation discipline of a goroutine literal: writes to variables captured from the spawner
// noteFanout classifies the writes a goroutine literal makes to memory it shares with its spawner: an assignment whose
// left-hand side is rooted in a captured identifier (not declared inside the literal).  x[i] = v with x a captured
// slice and i declared inside the literal (parameter or per-goroutine copy - go.mod is < 1.22, the loop variable itself
// is shared) is a private slot; everything else (append to a captured slice, writes through a captured struct field,
// captured map, captured scalar, index by the shared loop variable) is a racy shared write.
func (c *ctx) noteFanout(s *ast.AssignStmt) {
	if !c.inGo || c.litOwn == nil || c.goSite == "" {
		return
	}
	for _, lhs := range s.Lhs {
		root, depthOne := lhs, false
		var ix *ast.IndexExpr
		for {
			switch x := root.(type) {
			case *ast.IndexExpr:
				if ix == nil {
					if _, ok := x.X.(*ast.Ident); ok && root == lhs {
						ix, depthOne = x, true
					}
				}
				root = x.X
				continue
			case *ast.SelectorExpr:
				root = x.X
				continue
			case *ast.StarExpr:
				root = x.X
				continue
			case *ast.ParenExpr:
				root = x.X
				continue
			}
			break
		}
		id, ok := root.(*ast.Ident)
		if !ok || id.Name == "_" || c.litOwn[id.Name] {
			continue
		}
		if s.Tok == token.DEFINE {
			continue // declares new (own) variables
		}
		kind := "racy"
		if depthOne && ix != nil && !c.u.isMap(c.env[id.Name]) {
			// the index must be the goroutine's own copy of THE loop index (i := i, or a parameter passed the loop
			// variable): only then are the slots of different goroutines different
			own := func(e ast.Expr) bool {
				i, ok := e.(*ast.Ident)
				if ok && c.u.perIterationLoopVars && c.loopVars[i.Name] {
					return true // go.mod >= 1.22: every iteration has its own loop variable
				}
				return ok && (c.litOwn[i.Name] || c.loopFresh[i.Name]) && c.loopVars[c.prov[i.Name]]
			}
			if own(ix.Index) {
				kind = "slot"
			} else if be, ok := ix.Index.(*ast.BinaryExpr); ok && be.Op == token.SUB && own(be.X) { // x[h-from], h the copy
				if off, ok := be.Y.(*ast.Ident); ok && !c.loopVars[off.Name] && !c.litOwn[off.Name] {
					kind = "slot"
				}
			}
		}
		if cur := c.u.fanouts[c.goSite]; kind == "racy" || cur == "private" {
			c.u.fanouts[c.goSite] = kind
			if kind == "racy" {
				c.u.racyWrites = append(c.u.racyWrites, fmt.Sprintf("%s writes %s", c.goSite, id.Name))
			}
		}
	}
}

func (c *ctx) stmt(s ast.Stmt) paths {
	u := c.u
	top := c.top
	c.top = false
	switch s := s.(type) {
	case nil:
		return simple(pSkip)
	case *ast.EmptyStmt:
		return simple(pSkip)
	case *ast.ExprStmt:
		return simple(c.eff(s.X))
	case *ast.IncDecStmt:
		return simple(c.eff(s.X))
	case *ast.AssignStmt:
		var ps []*prog
		for i, r := range s.Rhs {
			if fl, ok := r.(*ast.FuncLit); ok {
				p := c.funcLit(fl, false)
				if !p.benign() {
					u.failf(fl.Pos(), "function value with lock/blocking operations assigned to a variable")
				}
				_ = i
				continue
			}
			ps = append(ps, c.eff(r))
		}
		for _, l := range s.Lhs {
			if _, ok := l.(*ast.Ident); !ok {
				ps = append(ps, c.eff(l))
			}
		}
		c.noteFanout(s)
		c.assign(s.Lhs, s.Rhs, s.Tok == token.DEFINE)
		return simple(seq(ps...))
	case *ast.DeclStmt:
		var ps []*prog
		if gd, ok := s.Decl.(*ast.GenDecl); ok {
			for _, sp := range gd.Specs {
				if vs, ok := sp.(*ast.ValueSpec); ok {
					ps = append(ps, c.effs(vs.Values))
					for i, n := range vs.Names {
						if c.litOwn != nil {
							c.litOwn[n.Name] = true
						}
						if vs.Type != nil {
							c.env[n.Name] = &typ{e: vs.Type, pkg: c.fn.pkg}
						} else if i < len(vs.Values) {
							c.env[n.Name] = c.typeOf(vs.Values[i])
						}
					}
				}
			}
		}
		return simple(seq(ps...))
	case *ast.SendStmt:
		// a plain send waits for a receiver that may be gone: always a Block
		return simple(seq(c.eff(s.Chan), c.eff(s.Value), pBlock))
	case *ast.GoStmt:
		if fl, ok := s.Call.Fun.(*ast.FuncLit); ok {
			var pre []*prog
			for _, a := range s.Call.Args {
				pre = append(pre, c.eff(a))
			}
			k := 0
			for _, f := range fl.Type.Params.List {
				for _, n := range f.Names {
					if k < len(s.Call.Args) {
						if id, ok := s.Call.Args[k].(*ast.Ident); ok {
							c.prov[n.Name] = id.Name
						} else {
							delete(c.prov, n.Name)
						}
					}
					k++
				}
			}
			return simple(seq(seq(pre...), goP(c.funcLit(fl, true))))
		}
		kind := "delegated" // go f(x): f is translated and classified on its own ...
		for _, a := range s.Call.Args {
			if ue, ok := a.(*ast.UnaryExpr); ok && ue.Op == token.AND {
				kind = "racy" // ... unless it is handed the address of the spawner's variables
				c.u.racyWrites = append(c.u.racyWrites, c.site+" passes an address to a goroutine")
			}
		}
		c.newGoSite(kind)
		p := c.call(s.Call)
		if p.isSkip() {
			p = pCall
		}
		return simple(goP(p))
	case *ast.DeferStmt:
		var p *prog
		if fl, ok := s.Call.Fun.(*ast.FuncLit); ok {
			p = c.funcLit(fl, false)
		} else {
			p = c.call(s.Call)
		}
		if p.isSkip() {
			return simple(pSkip)
		}
		if !top {
			u.failf(s.Pos(), "defer with lock/blocking effect inside a nested block")
			return simple(pSkip)
		}
		c.deferred = append(c.deferred, p)
		return simple(pSkip)
	case *ast.ReturnStmt:
		var ps []*prog
		for _, r := range s.Results {
			if fl, ok := r.(*ast.FuncLit); ok {
				// returned handler closure: its body is what runs when the handler is invoked
				ps = append(ps, c.funcLit(fl, false))
				continue
			}
			ps = append(ps, c.eff(r))
		}
		return paths{ret: seq(seq(ps...), c.deferredNow())}
	case *ast.BlockStmt:
		return c.list(s.List, false)
	case *ast.IfStmt:
		init := c.stmt(s.Init)
		cond := c.eff(s.Cond)
		then := c.list(s.Body.List, false)
		els := simple(pSkip)
		if s.Else != nil {
			els = c.stmt(s.Else)
		}
		return seqPaths(init, seqPaths(simple(cond), altPaths(then, els)))
	case *ast.ForStmt:
		init := c.stmt(s.Init)
		if as, ok := s.Init.(*ast.AssignStmt); ok && as.Tok == token.DEFINE {
			for _, l := range as.Lhs {
				if id, ok := l.(*ast.Ident); ok {
					c.loopVars[id.Name] = true
					delete(c.prov, id.Name)
				}
			}
		}
		cond := c.eff(s.Cond)
		savedFresh := c.loopFresh
		c.loopFresh = map[string]bool{}
		body := c.list(s.Body.List, false)
		c.loopFresh = savedFresh
		post := c.stmt(s.Post)
		return seqPaths(init, c.loopPaths(cond, body, post.ft, s.Cond != nil, cond))
	case *ast.RangeStmt:
		x := c.eff(s.X)
		tx := c.typeOf(s.X)
		if s.Tok == token.DEFINE || s.Tok == token.ASSIGN {
			bind := func(e ast.Expr, t *typ) {
				if id, ok := e.(*ast.Ident); ok && id.Name != "_" {
					c.env[id.Name] = t
					c.loopVars[id.Name] = true
					delete(c.prov, id.Name)
					if c.litOwn != nil && s.Tok == token.DEFINE {
						c.litOwn[id.Name] = true
					}
				}
			}
			if u.isChan(tx) {
				bind(s.Key, u.elemOf(tx))
			} else {
				bind(s.Key, nil)
				bind(s.Value, u.elemOf(tx))
			}
		}
		savedFresh := c.loopFresh
		c.loopFresh = map[string]bool{}
		body := c.list(s.Body.List, false)
		c.loopFresh = savedFresh
		if u.isChan(tx) {
			return seqPaths(simple(x), c.loopPaths(pBlock, body, pSkip, true, pBlock))
		}
		if tx == nil {
			if se, ok := s.X.(*ast.SelectorExpr); ok && strings.Contains(strings.ToLower(se.Sel.Name), "ch") {
				u.failf(s.Pos(), "range over %s whose type cannot be resolved (channel?)", se.Sel.Name)
			}
		}
		return seqPaths(simple(x), c.loopPaths(pSkip, body, pSkip, true, pSkip))
	case *ast.SwitchStmt:
		init := c.stmt(s.Init)
		tag := c.eff(s.Tag)
		return seqPaths(init, seqPaths(simple(tag), c.clauses(s.Body.List)))
	case *ast.TypeSwitchStmt:
		init := c.stmt(s.Init)
		asg := c.stmt(s.Assign)
		return seqPaths(init, seqPaths(asg, c.clauses(s.Body.List)))
	case *ast.SelectStmt:
		var acc *paths
		// the select cannot wait forever if it has a default arm, or a quit arm: a receive whose value is discarded
		// from a Done() channel or from a chan struct{} (closed by whoever ends the wait)
		park := pBlock
		for _, cl := range s.Body.List {
			cc := cl.(*ast.CommClause)
			if cc.Comm == nil {
				park = pGuarded
				continue
			}
			if es, ok := cc.Comm.(*ast.ExprStmt); ok {
				if ue, ok := es.X.(*ast.UnaryExpr); ok && ue.Op == token.ARROW {
					if call, ok := ue.X.(*ast.CallExpr); ok {
						if se, ok := call.Fun.(*ast.SelectorExpr); ok && se.Sel.Name == "Done" && len(call.Args) == 0 {
							park = pGuarded
						}
					} else if ct := u.container(c.typeOf(ue.X)); ct != nil {
						if ch, ok := ct.e.(*ast.ChanType); ok {
							if st, ok := ch.Value.(*ast.StructType); ok && (st.Fields == nil || len(st.Fields.List) == 0) {
								park = pGuarded
							}
						}
					}
				}
			}
		}
		if park == pGuarded {
			u.live[c.site] = true
		}
		for _, cl := range s.Body.List {
			cc := cl.(*ast.CommClause)
			var p paths
			if cc.Comm == nil {
				p = seqPaths(simple(park), c.list(cc.Body, false))
			} else {
				// the select parks once; bind the received variable's type, ignore the arrow itself
				if as, ok := cc.Comm.(*ast.AssignStmt); ok {
					c.assign(as.Lhs, as.Rhs, as.Tok == token.DEFINE)
				}
				p = seqPaths(simple(park), c.list(cc.Body, false))
			}
			if acc == nil {
				acc = &p
			} else {
				q := altPaths(*acc, p)
				acc = &q
			}
		}
		if acc == nil {
			return simple(pBlock) // select {} blocks forever
		}
		r := *acc
		r.ft = altN(r.ft, r.brk)
		r.brk = nil
		return r
	case *ast.BranchStmt:
		if s.Label != nil {
			u.failf(s.Pos(), "labelled %s", s.Tok)
			return simple(pSkip)
		}
		switch s.Tok {
		case token.BREAK:
			return paths{brk: pSkip}
		case token.CONTINUE:
			return paths{cont: pSkip}
		}
		u.failf(s.Pos(), "unsupported branch statement %s", s.Tok)
		return simple(pSkip)
	case *ast.LabeledStmt:
		u.failf(s.Pos(), "labelled statement")
		return simple(pSkip)
	}
	u.failf(s.Pos(), "unsupported statement %T", s)
	return simple(pSkip)
}

func (c *ctx) clauses(list []ast.Stmt) paths {
	var acc *paths
	hasDefault := false
	for _, cl := range list {
		cc := cl.(*ast.CaseClause)
		if cc.List == nil {
			hasDefault = true
		}
		for _, st := range cc.Body {
			if bs, ok := st.(*ast.BranchStmt); ok && bs.Tok == token.FALLTHROUGH {
				c.u.failf(bs.Pos(), "fallthrough")
			}
		}
		p := seqPaths(simple(c.effs(cc.List)), c.list(cc.Body, false))
		if acc == nil {
			acc = &p
		} else {
			q := altPaths(*acc, p)
			acc = &q
		}
	}
	r := simple(pSkip)
	if acc != nil {
		r = *acc
		if !hasDefault {
			r = altPaths(r, simple(pSkip))
		}
	}
	r.ft = altN(r.ft, r.brk)
	r.brk = nil
	return r
}

// loopPaths: pre = effect evaluated before every iteration (condition / channel receive), exitEff = effect of the
// failing condition evaluation (or of the receive that observes the closed channel)
func (c *ctx) loopPaths(pre *prog, body paths, post *prog, hasExit bool, exitEff *prog) paths {
	if post == nil {
		post = pSkip
	}
	var iter *prog // one complete iteration
	if f := altN(body.ft, body.cont); f != nil {
		iter = seq(pre, f, post)
	}
	l := pSkip
	if iter != nil {
		l = loop(iter)
	}
	var out paths
	var ex *prog
	if hasExit {
		ex = exitEff
	}
	if !hasExit && body.brk == nil && body.ret == nil {
		c.u.failf(c.fn.decl.Pos(), "loop with no exit in %s: nothing after it, including deferred unlocks, can run", c.site)
	}
	if body.brk != nil {
		ex = altN(ex, seq(pre, body.brk))
	}
	if ex != nil {
		out.ft = seq(l, ex)
	}
	if body.ret != nil {
		out.ret = seq(l, pre, body.ret)
	}
	return out
}

func (u *universe) funcProg(fi *funcInfo, depth int, pos token.Pos) *prog {
	if fi.done {
		return fi.prog
	}
	if fi.busy {
		u.failf(pos, "recursive call cycle through %s", fi.key())
		return pCall
	}
	if fi.decl.Body == nil {
		return pCall
	}
	fi.busy = true
	c := &ctx{u: u, fn: fi, env: map[string]*typ{}, imports: importNames(fi.fileA), depth: depth, site: fi.key(), prov: map[string]string{}, loopVars: map[string]bool{}}
	if fi.decl.Recv != nil {
		for _, f := range fi.decl.Recv.List {
			for _, n := range f.Names {
				c.env[n.Name] = &typ{e: f.Type, pkg: fi.pkg}
			}
		}
	}
	c.bindFields(fi.decl.Type.Params, fi.pkg)
	c.bindFields(fi.decl.Type.Results, fi.pkg)
	p := c.body(fi.decl.Body, fi.decl.Pos())
	if p == nil {
		p = pSkip
	}
	fi.busy = false
	fi.done = true
	fi.prog = p
	return p
}

// closeBeforeLock pins the statement order the Guarded exemption rests on: in every function that takes a sendMutex in
// write mode (the remover of a subscription), a close(<x>.done) precedes the Lock() call in the function body.
func closeBeforeLock(fns []*funcInfo) bool {
	ok, seen := true, false
	for _, fi := range fns {
		if fi.decl.Body == nil {
			continue
		}
		closePos, lockPos := token.NoPos, token.NoPos
		ast.Inspect(fi.decl.Body, func(n ast.Node) bool {
			call, isCall := n.(*ast.CallExpr)
			if !isCall {
				return true
			}
			if id, isID := call.Fun.(*ast.Ident); isID && id.Name == "close" && len(call.Args) == 1 {
				if se, isSel := call.Args[0].(*ast.SelectorExpr); isSel && se.Sel.Name == "done" && closePos == token.NoPos {
					closePos = call.Pos()
				}
			}
			if se, isSel := call.Fun.(*ast.SelectorExpr); isSel && se.Sel.Name == "Lock" {
				if in, isIn := se.X.(*ast.SelectorExpr); isIn && in.Sel.Name == "sendMutex" && lockPos == token.NoPos {
					lockPos = call.Pos()
				}
			}
			return true
		})
		if lockPos != token.NoPos {
			seen = true
			if closePos == token.NoPos || closePos > lockPos {
				ok = false
			}
		}
	}
	return ok && seen
}

// lockingTable: expected use of the receiver's own lock per method (see the generated locking_table).
var lockingTable = map[string]string{
	"blockCache.last": "R", "blockCache.get": "R", "blockCache.getByHeight": "R", "blockCache.len": "R",
	"blockCache.push": "W", "blockCache.popAndRefill": "W", "blockCache.pop": "W",
	"blockCache.getByHeightWithoutLock": "-", "blockCache.popWithoutLock": "-",
	"Pool.Size": "W", "Pool.Has": "W", "Pool.Add": "W", "Pool.Cleanup": "W", "Pool.Select": "W", "Pool.Get": "W", "Pool.Upgrade": "W",
	"Database.WithPrefix": "-", "Database.Has": "W", "Database.Get": "W", "Database.Range": "W", "Database.Iterate": "W",
	"Database.Set": "W", "Database.Del": "W", "Database.Commit": "W", "Database.RevertDiff": "-", "Database.Snapshot": "W",
	"Database.DeleteSnapshot": "W", "Database.RestoreSnapshot": "W", "Database.ensureCache": "-", "Database.getKey": "-",
	"Database.mergeSortLimit": "-",
	"subscription.send":       "R", "subscription.close": "W",
	"EventEmitter.On": "W", "EventEmitter.Subscribe": "W", "EventEmitter.subscribers": "R", "EventEmitter.Publish": "R",
	"EventEmitter.Emit": "R", "EventEmitter.Close": "W", "EventEmitter.UnsubscribeAll": "W", "EventEmitter.Unsubscribe": "W",
	"addressTransactions.Get": "W", "addressTransactions.Size": "-", "addressTransactions.GetProcessables": "W",
	"addressTransactions.GetUnprocessables": "W", "addressTransactions.Add": "W", "addressTransactions.insufficientReplacementFee": "-",
	"addressTransactions.RejectsReplacement": "W", "addressTransactions.Remove": "W", "addressTransactions.Promote": "W",
	"addressTransactions.GetPromotable": "W", "addressTransactions.remove": "-", "addressTransactions.demoteAfter": "-",
	"addressTransactions.minNonce": "-", "addressTransactions.maxNonce": "-",
	"TransactionPool.Init": "free", "TransactionPool.Start": "free", "TransactionPool.End": "-",
	"TransactionPool.Get": "R", "TransactionPool.GetAll": "R", "TransactionPool.GetProcessable": "R",
	"TransactionPool.Add": "W", "TransactionPool.Remove": "W", "TransactionPool.remove": "W", "TransactionPool.reorg": "R",
	"TransactionPool.Subscribe": "-", "TransactionPool.evictUnprocessable": "-", "TransactionPool.evictProcessable": "-",
	"TransactionPool.removeWithoutLock": "-", "TransactionPool.rebuildFeePriorityQueue": "-",
	"TransactionPool.transactionValidator": "-", "TransactionPool.verifyTransactions": "-",
	"TransactionPool.onTransactionAnnoucement": "free", "TransactionPool.HandleRPCEndpointGetTransaction": "free",
}

// ---------------------------------------------------------------- multi-key reads

var componentRe = regexp.MustCompile(`^(getBlockHeader|getTransactions|getBlockAssets)(From)?$`)

// readDiscipline classifies a function that assembles a compound value from the separately stored parts of a block
// (header, transaction list, assets): "" = reads at most one component, "one" = all components read through the
// same variable bound to <db>.NewReader() (one pebble snapshot), "separate" = anything else.
func readDiscipline(fd *ast.FuncDecl) string {
	if fd.Body == nil {
		return ""
	}
	snap := map[string]bool{}
	rawGets := 0
	comps := map[string]bool{}
	srcs := map[string]bool{}
	ast.Inspect(fd.Body, func(n ast.Node) bool {
		switch x := n.(type) {
		case *ast.AssignStmt:
			if len(x.Lhs) == 1 && len(x.Rhs) == 1 {
				if call, ok := x.Rhs[0].(*ast.CallExpr); ok {
					if se, ok := call.Fun.(*ast.SelectorExpr); ok && se.Sel.Name == "NewReader" {
						if id, ok := x.Lhs[0].(*ast.Ident); ok {
							snap[id.Name] = true
						}
					}
				}
			}
		case *ast.CallExpr:
			name := ""
			switch f := x.Fun.(type) {
			case *ast.Ident:
				name = f.Name
			case *ast.SelectorExpr:
				name = f.Sel.Name
			}
			if se, ok := x.Fun.(*ast.SelectorExpr); ok && se.Sel.Name == "Get" {
				if inner, ok := se.X.(*ast.SelectorExpr); ok && inner.Sel.Name == "database" {
					rawGets++ // a read of the live database, not of the snapshot
				}
			}
			m := componentRe.FindStringSubmatch(name)
			if m == nil {
				return true
			}
			comps[m[1]] = true
			src := "<separate Get>"
			if m[2] == "From" && len(x.Args) > 0 {
				if id, ok := x.Args[0].(*ast.Ident); ok && snap[id.Name] {
					src = id.Name
				}
			}
			srcs[src] = true
		}
		return true
	})
	if len(comps) < 2 {
		return ""
	}
	if len(srcs) == 1 && !srcs["<separate Get>"] && rawGets == 0 {
		return "one"
	}
	return "separate"
}

// poolConfigWiring reads the composite literal txpool.TransactionPoolConfig{...} in the engine: (field, source field) pairs
func poolConfigWiring(u *universe, path string) [][2]string {
	f, err := parser.ParseFile(u.fset, path, nil, parser.SkipObjectResolution)
	if err != nil {
		u.errs = append(u.errs, fmt.Sprintf("pool config wiring: %v", err))
		return nil
	}
	var out [][2]string
	found := 0
	ast.Inspect(f, func(n ast.Node) bool {
		cl, ok := n.(*ast.CompositeLit)
		if !ok {
			return true
		}
		se, ok := cl.Type.(*ast.SelectorExpr)
		if !ok || se.Sel.Name != "TransactionPoolConfig" {
			return true
		}
		if id, ok := se.X.(*ast.Ident); !ok || id.Name != "txpool" {
			return true
		}
		found++
		for _, el := range cl.Elts {
			kv, ok := el.(*ast.KeyValueExpr)
			if !ok {
				u.failf(el.Pos(), "pool config wiring: positional field")
				continue
			}
			k, _ := kv.Key.(*ast.Ident)
			v, okv := kv.Value.(*ast.SelectorExpr)
			if k == nil || !okv {
				u.failf(el.Pos(), "pool config wiring: field not copied from a configuration field")
				continue
			}
			src := v.Sel.Name
			if in, ok := v.X.(*ast.SelectorExpr); !ok || in.Sel.Name != "TransactionPool" {
				src = "<not e.config.TransactionPool>." + src
			} else if in2, ok := in.X.(*ast.SelectorExpr); !ok || in2.Sel.Name != "config" {
				src = "<not e.config.TransactionPool>." + src
			}
			out = append(out, [2]string{k.Name, src})
		}
		return true
	})
	if found != 1 {
		u.errs = append(u.errs, fmt.Sprintf("pool config wiring: expected one txpool.TransactionPoolConfig literal in %s, found %d", path, found))
	}
	return out
}

// ---------------------------------------------------------------- lock order + output

func collectLocks(p *prog, set map[string]bool) {
	if p == nil {
		return
	}
	if p.kind == "acq" || p.kind == "rel" {
		set[p.lock] = true
	}
	collectLocks(p.a, set)
	collectLocks(p.b, set)
}

func orderEdges(p *prog, held []string, edges map[[2]string]bool) []string {
	switch p.kind {
	case "acq":
		for _, h := range held {
			if h != p.lock {
				edges[[2]string{h, p.lock}] = true
			}
		}
		return append(append([]string{}, held...), p.lock)
	case "rel":
		out := []string{}
		removed := false
		for i := len(held) - 1; i >= 0; i-- {
			if !removed && held[i] == p.lock {
				removed = true
				continue
			}
			out = append([]string{held[i]}, out...)
		}
		return out
	case "seq":
		return orderEdges(p.b, orderEdges(p.a, held, edges), edges)
	case "alt":
		h := orderEdges(p.a, held, edges)
		orderEdges(p.b, held, edges)
		return h
	case "loop":
		orderEdges(p.a, held, edges)
		return held
	case "go":
		orderEdges(p.a, nil, edges)
		return held
	}
	return held
}

func coqName(s string) string {
	r := strings.NewReplacer(".", "_", "-", "_", " ", "_")
	return r.Replace(s)
}

func (p *prog) coq(lockID map[string]int) string {
	switch p.kind {
	case "skip":
		return "Skip"
	case "block":
		return "Block"
	case "call":
		return "Call"
	case "guarded":
		return "Guarded"
	case "acq":
		return fmt.Sprintf("Acq %d %s", lockID[p.lock], p.mode)
	case "rel":
		return fmt.Sprintf("Rel %d %s", lockID[p.lock], p.mode)
	case "seq":
		return fmt.Sprintf("Seq (%s) (%s)", p.a.coq(lockID), p.b.coq(lockID))
	case "alt":
		return fmt.Sprintf("Alt (%s) (%s)", p.a.coq(lockID), p.b.coq(lockID))
	case "loop":
		return fmt.Sprintf("Loop (%s)", p.a.coq(lockID))
	case "go":
		return fmt.Sprintf("Go (%s)", p.a.coq(lockID))
	}
	return "Skip"
}

func main() {
	repo := flag.String("repo", "/repo", "lisk-engine checkout")
	out := flag.String("out", "", "output .v file (written only if the content changed)")
	flag.Parse()
	if *out == "" {
		fmt.Fprintln(os.Stderr, "usage: skeletons -repo /repo -out coq/Gen/Skeletons.v")
		os.Exit(2)
	}
	u := &universe{repo: *repo, fset: token.NewFileSet(), pkgs: map[string]*pkgInfo{}, opaque: map[string]bool{}, live: map[string]bool{}, fanouts: map[string]string{}, goCount: map[string]int{}}
	if gm, err := os.ReadFile(filepath.Join(*repo, "go.mod")); err == nil {
		if m := regexp.MustCompile(`(?m)^go (\d+)\.(\d+)`).FindStringSubmatch(string(gm)); m != nil {
			var maj, min int
			fmt.Sscanf(m[1]+" "+m[2], "%d %d", &maj, &min)
			u.perIterationLoopVars = maj > 1 || (maj == 1 && min >= 22)
		} else {
			u.errs = append(u.errs, "go.mod: no go directive")
		}
	} else {
		u.errs = append(u.errs, "go.mod: "+err.Error())
	}
	dirs := map[string]bool{}
	for _, l := range listed {
		if _, err := os.Stat(filepath.Join(*repo, l)); err != nil {
			u.errs = append(u.errs, fmt.Sprintf("listed file missing: %s", l))
		}
		dirs[filepath.Dir(l)] = true
	}
	var ds []string
	for d := range dirs {
		ds = append(ds, d)
	}
	sort.Strings(ds)
	for _, d := range ds {
		u.load(d)
	}
	var fns []*funcInfo
	for _, fi := range u.allFuncs {
		if fi.listed {
			fns = append(fns, fi)
		}
	}
	sort.Slice(fns, func(i, j int) bool {
		if fns[i].file != fns[j].file {
			return fns[i].file < fns[j].file
		}
		return fns[i].decl.Pos() < fns[j].decl.Pos()
	})
	for _, fi := range fns {
		u.funcProg(fi, 0, fi.decl.Pos())
	}
	if len(u.errs) > 0 {
		for _, e := range u.errs {
			fmt.Fprintln(os.Stderr, "skeletons: "+e)
		}
		os.Exit(1)
	}
	// every mutex field of a struct declared in a listed file must be used only through the recognised idioms:
	// fields that are never locked would silently disappear, so list them all
	locks := map[string]bool{}
	edges := map[[2]string]bool{}
	for _, fi := range fns {
		collectLocks(fi.prog, locks)
		orderEdges(fi.prog, nil, edges)
	}
	var names []string
	for l := range locks {
		names = append(names, l)
	}
	sort.Strings(names)
	// Kahn topological sort, alphabetical tie-break; leftovers (cycle) appended alphabetically
	indeg := map[string]int{}
	for e := range edges {
		indeg[e[1]]++
	}
	var order []string
	done := map[string]bool{}
	for len(order) < len(names) {
		progress := false
		for _, n := range names {
			if !done[n] && indeg[n] == 0 {
				done[n] = true
				order = append(order, n)
				for e := range edges {
					if e[0] == n {
						indeg[e[1]]--
					}
				}
				progress = true
				break
			}
		}
		if !progress {
			for _, n := range names {
				if !done[n] {
					done[n] = true
					order = append(order, n)
				}
			}
		}
	}
	lockID := map[string]int{}
	for i, n := range order {
		lockID[n] = i
	}

	var b strings.Builder
	b.WriteString("(* GENERATED by translate/skeletons from the lisk-engine sources - do not edit.\n")
	b.WriteString("   Lock/blocking skeletons of every function of the listed files; obligations: each is a safe program\n")
	b.WriteString("   (balanced, no re-acquisition, nested locks only in the order below, nothing blocking under a lock). *)\n")
	b.WriteString("From Coq Require Import List String Bool.\nFrom LE Require Import Conc.RWMutex Conc.Skeleton Conc.SharedAppend Conc.SnapshotRead Conc.Atomic.\nImport ListNotations.\nLocal Open Scope string_scope.\n\n")
	b.WriteString("(* the one fixed lock order (position = identifier) *)\n")
	for i, n := range order {
		fmt.Fprintf(&b, "Definition lk_%s : nat := %d.\n", coqName(n), i)
	}
	fmt.Fprintf(&b, "Definition n_locks : nat := %d.\n", len(order))
	b.WriteString("Definition lock_names : list string := [")
	for i, n := range order {
		if i > 0 {
			b.WriteString("; ")
		}
		fmt.Fprintf(&b, "%q", n)
	}
	b.WriteString("].\n\n")
	groups := map[string][]string{}
	var groupOrder []string
	seen := map[string]bool{}
	for _, fi := range fns {
		name := "skel_" + coqName(fi.key())
		if seen[name] {
			u.errs = append(u.errs, "duplicate skeleton name "+name)
			continue
		}
		seen[name] = true
		fmt.Fprintf(&b, "(* %s  %s *)\nDefinition %s : prog :=\n  %s.\n", fi.file, fi.key(), name, fi.prog.coq(lockID))
		fmt.Fprintf(&b, "Lemma safe_%s : safe_prog n_locks %s = true.\nProof. vm_compute. reflexivity. Qed.\n\n", coqName(fi.key()), name)
		g := fi.pkg.name + "_funcs"
		if fi.recv != nil {
			g = fi.recv.name
		}
		if _, ok := groups[g]; !ok {
			groupOrder = append(groupOrder, g)
		}
		groups[g] = append(groups[g], name)
	}
	for _, g := range groupOrder {
		fmt.Fprintf(&b, "Definition ops_%s : list prog := [%s].\n", coqName(g), strings.Join(groups[g], "; "))
	}
	b.WriteString("Definition all_ops : list prog :=\n  ")
	for _, g := range groupOrder {
		fmt.Fprintf(&b, "ops_%s ++ ", coqName(g))
	}
	b.WriteString("[].\n")
	b.WriteString("\n(* result accumulation in goroutine fan-outs: how each goroutine literal writes to variables of its spawner *)\n")
	var fk []string
	for k := range u.fanouts {
		fk = append(fk, k)
	}
	sort.Strings(fk)
	b.WriteString("Definition fanouts : list (string * discipline) := [")
	for i, k := range fk {
		if i > 0 {
			b.WriteString(";")
		}
		d := map[string]string{"slot": "Slots", "private": "Private", "delegated": "Delegated"}[u.fanouts[k]]
		if d == "" {
			d = "Racy"
		}
		fmt.Fprintf(&b, "\n  (%q, %s)", coqName(k), d)
	}
	b.WriteString("].\nLemma fanouts_ok : forallb (fun p => discipline_ok (snd p)) fanouts = true.\nProof. vm_compute. reflexivity. Qed.\n")
	// counted independently of the translation walk: every `go` statement and every errgroup-style .Go(func) in the sources
	goSites := 0
	for _, fi := range fns {
		if fi.decl.Body == nil {
			continue
		}
		ast.Inspect(fi.decl.Body, func(n ast.Node) bool {
			switch x := n.(type) {
			case *ast.GoStmt:
				goSites++
			case *ast.CallExpr:
				if se, ok := x.Fun.(*ast.SelectorExpr); ok && se.Sel.Name == "Go" && len(x.Args) == 1 {
					if _, ok := x.Args[0].(*ast.FuncLit); ok {
						goSites++
					}
				}
			}
			return true
		})
	}
	fmt.Fprintf(&b, "(* every go statement / errgroup Go of the translated files has exactly one classification entry *)\nDefinition go_sites : nat := %d.\nLemma every_go_site_classified : List.length fanouts = go_sites.\nProof. vm_compute. reflexivity. Qed.\n", goSites)
	// every method of a lock-owning type is one atomic step of the sequential models: it must enter the object's own
	// lock(s) at most once per call. Driver loops that call operations repeatedly are exempt (listed).
	exempt := map[string]bool{"TransactionPool.Start": true, // the ticker loop: calls reorg once per tick
		"TransactionPool.Init": true} // registers its handlers as method values (each counted as possibly invoked)
	b.WriteString("\n(* methods of lock-owning types with the identifier of each own lock: one critical section per call *)\n")
	b.WriteString("Definition atomic_ops : list (string * nat * prog) := [")
	firstA := true
	nAtomic := 0
	for _, fi := range fns {
		if fi.recv == nil || exempt[fi.key()] {
			continue
		}
		var own []string
		for fname, ft := range fi.recv.fields {
			if isQualified(&typ{e: ft, pkg: fi.recv.pkg}, "sync", "Mutex", "RWMutex") {
				own = append(own, fi.recv.name+"."+fname)
			}
		}
		sort.Strings(own)
		for _, l := range own {
			id, used := lockID[l]
			if !used {
				continue
			}
			if !firstA {
				b.WriteString(";")
			}
			firstA = false
			nAtomic++
			fmt.Fprintf(&b, "\n  (%q, %d, skel_%s)", coqName(fi.key()), id, coqName(fi.key()))
		}
	}
	b.WriteString("].\nLemma atomic_ops_single_section : forallb (fun x => single_section (snd (fst x)) (snd x)) atomic_ops = true.\nProof. vm_compute. reflexivity. Qed.\n")
	// PINNED locking table: how each method of a lock-owning type must use the object's own lock. R / W = exactly one
	// critical section in that mode on every path; "-" = never acquires it (helper that runs under the caller's lock, or
	// touches no guarded state); "free" = wrapper around other operations (listed exemptions). A method that is not in
	// the table aborts the run: the table has to be extended, with the expected mode, when the code grows.
	b.WriteString("\n(* pinned expectations (translate/skeletons, lockingTable) against the skeletons extracted from the source *)\n")
	b.WriteString("Definition locking_table : list (string * bool) := [")
	firstL := true
	for _, fi := range fns {
		if fi.recv == nil {
			continue
		}
		var own []string
		for fname, ft := range fi.recv.fields {
			if isQualified(&typ{e: ft, pkg: fi.recv.pkg}, "sync", "Mutex", "RWMutex") {
				own = append(own, fi.recv.name+"."+fname)
			}
		}
		sort.Strings(own)
		for _, l := range own {
			id, used := lockID[l]
			if !used {
				continue
			}
			exp, ok := lockingTable[fi.key()+"@"+l]
			if !ok {
				exp, ok = lockingTable[fi.key()]
			}
			if !ok {
				// an UNEXPORTED method that is not pinned and never takes the lock itself is a helper (typically extracted
				// by a refactoring): it is inlined into its callers, whose own entries pin the mode; it is recorded as
				// "never locks" so that it stays checked. Exported methods, and any method that acquires the lock, must
				// be pinned explicitly.
				if !ast.IsExported(fi.name) && !acquiresLock(fi.prog, l) {
					exp, ok = "-", true
				}
			}
			if !ok {
				u.errs = append(u.errs, fmt.Sprintf("%s: method of a lock-owning type without an entry in the pinned locking table (expected use of %s: R, W, - or free); "+
					"only unexported methods that never acquire the lock are defaulted", fi.key(), l))
				continue
			}
			var term string
			switch exp {
			case "R", "W":
				term = fmt.Sprintf("locks_exactly_once %d %s skel_%s", id, exp, coqName(fi.key()))
			case "-":
				term = fmt.Sprintf("never_locks %d skel_%s", id, coqName(fi.key()))
			default:
				term = "true"
			}
			if !firstL {
				b.WriteString(";")
			}
			firstL = false
			fmt.Fprintf(&b, "\n  (%q, %s)", coqName(fi.key())+"_"+exp, term)
		}
	}
	b.WriteString("].\n")
	b.WriteString("(* no operation that may wait for another party (Block, or a Guarded select) is performed while ANY lock is held,\n")
	b.WriteString("   except under subscription.sendMutex: its only waiting operation is select{send, <-done}, and the remover closes\n")
	b.WriteString("   done BEFORE it asks for that mutex (pinned below), so the wait ends when the remover arrives *)\n")
	exemptID := -1
	if id, ok := lockID["subscription.sendMutex"]; ok {
		exemptID = id
	}
	fmt.Fprintf(&b, "Definition wait_exempt_lock : nat := %d.\n", func() int {
		if exemptID < 0 {
			return len(order)
		}
		return exemptID
	}())
	b.WriteString("Lemma no_wait_under_any_lock : forallb (fun l => if Nat.eqb l wait_exempt_lock then true else forallb (never_waits_holding l) all_ops) (seq 0 n_locks) = true.\nProof. vm_compute. reflexivity. Qed.\n")
	fmt.Fprintf(&b, "Definition close_signals_before_locking : bool := %v.\nLemma close_signals_before_locking_ok : close_signals_before_locking = true.\nProof. vm_compute. reflexivity. Qed.\n", closeBeforeLock(fns))
	b.WriteString("Lemma locking_table_ok : forallb (fun x => snd x) locking_table = true.\nProof. vm_compute. reflexivity. Qed.\n")
	b.WriteString("\n(* getters that assemble a block from its separately stored parts: through one snapshot, or by separate reads *)\n")
	b.WriteString("Definition multi_reads : list (string * read_discipline) := [")
	mr := map[string]string{}
	first := true
	for _, fi := range fns {
		d := readDiscipline(fi.decl)
		if d == "" {
			continue
		}
		mr[fi.key()] = d
		if !first {
			b.WriteString(";")
		}
		first = false
		cd := "SeparateReads"
		if d == "one" {
			cd = "OneSnapshot"
		}
		fmt.Fprintf(&b, "\n  (%q, %s)", coqName(fi.key()), cd)
	}
	b.WriteString("].\nLemma multi_reads_ok : andb (negb (match multi_reads with [] => true | _ => false end)) (forallb (fun p => read_discipline_ok (snd p)) multi_reads) = true.\nProof. vm_compute. reflexivity. Qed.\n")
	// the engine builds the pool's configuration field by field: every field must come from the equally named field
	// of the node configuration (a per-sender limit wired to the pool limit would silently lift the per-sender bound)
	b.WriteString("\n(* pkg/engine/engine.go: txpool.TransactionPoolConfig{Field: e.config.TransactionPool.<Source>} *)\n")
	b.WriteString("Definition pool_config_wiring : list (string * string) := [")
	wiring := poolConfigWiring(u, filepath.Join(*repo, "pkg/engine/engine.go"))
	for i, w := range wiring {
		if i > 0 {
			b.WriteString("; ")
		}
		fmt.Fprintf(&b, "(%q, %q)", w[0], w[1])
	}
	b.WriteString("].\nLemma pool_config_wiring_ok : andb (Nat.leb 5 (List.length pool_config_wiring)) (forallb (fun p => String.eqb (fst p) (snd p)) pool_config_wiring) = true.\nProof. vm_compute. reflexivity. Qed.\n")
	if len(u.errs) > 0 {
		for _, e := range u.errs {
			fmt.Fprintln(os.Stderr, "skeletons: "+e)
		}
		os.Exit(1)
	}
	content := b.String()
	old, err := os.ReadFile(*out)
	changed := err != nil || string(old) != content
	if changed {
		if err := os.MkdirAll(filepath.Dir(*out), 0o755); err != nil {
			fmt.Fprintln(os.Stderr, err)
			os.Exit(2)
		}
		if err := os.WriteFile(*out, []byte(content), 0o644); err != nil {
			fmt.Fprintln(os.Stderr, err)
			os.Exit(2)
		}
	}
	keys := func(m map[string]bool) []string {
		var ks []string
		for k := range m {
			ks = append(ks, k)
		}
		sort.Strings(ks)
		return ks
	}
	var edgeList []string
	for e := range edges {
		edgeList = append(edgeList, e[0]+" < "+e[1])
	}
	sort.Strings(edgeList)
	fo := map[string]string{}
	for k, v := range u.fanouts {
		fo[k] = v
	}
	sum := map[string]interface{}{
		"functions": len(fns), "lock_order": order, "nesting": edgeList, "opaque_calls": keys(u.opaque),
		"guarded_selects": keys(u.live), "fanouts": fo, "racy_writes": u.racyWrites, "go_sites": goSites, "multi_reads": mr, "atomic_ops": nAtomic, "atomic_exempt": keys(exempt), "changed": changed, "files": listed,
	}
	js, _ := json.Marshal(sum)
	fmt.Println(string(js))
}
