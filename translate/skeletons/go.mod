module verifskeletons

go 1.21
