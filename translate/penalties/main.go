// Penalty call-site translator for C18 (stdlib only). Walks every non-test, non-verif Go file under <repo>/pkg and <repo>/cmd
// and lists every call of ApplyPenalty / BanPeer / banPeer / addPenalty: file, enclosing function (method name, "/func" appended
// per enclosing function literal), callee as written, and the chain of guarding conditions from the outermost to the innermost
// (if conditions with their init statement, "else(<cond>)" for else branches, "not(<cond>)" after an if that always leaves, "range <expr>" / "for <cond>" for loops,
// "case <expr>" for switch/select clauses). The list is emitted to coq/Gen/Penalties.v; Coq checks it equals the catalogue in
// coq/P2P/PenaltySites.v, so a removed, added, moved or re-guarded penalty site breaks an obligation.
// Also emitted: the functions that *declare* these names (so that a new wrapper is noticed).
//
// Robustness against harmless extraction of helpers: a site is identified by the ENTRY POINT that reaches it, not by the textual
// enclosing function. An unexported function/method that is not itself one of the four names, is unique by name in its package
// and has at least one caller in the package is a pass-through helper: its penalty calls are attributed to every call site of the
// helper (function of the caller, guard chain of the caller followed by the guards inside the helper, parameters substituted by
// the arguments), to a fixed depth; the helper is not listed by itself. Wrapping `banPeer` in `banRemotePeer(conn)` therefore keeps
// the list equal, while removing, adding, moving or re-guarding a penalty - in a helper or not - still changes it.
package main

import (
	"bytes"
	"flag"
	"fmt"
	"go/ast"
	"go/parser"
	"go/printer"
	"go/token"
	"os"
	"path/filepath"
	"regexp"
	"sort"
	"strings"
)

var names = map[string]bool{"ApplyPenalty": true, "BanPeer": true, "banPeer": true, "addPenalty": true}

var fset = token.NewFileSet()

func fail(f string, a ...interface{}) {
	fmt.Fprintf(os.Stderr, "penalties: "+f+"\n", a...)
	os.Exit(2)
}

func src(n ast.Node) string {
	var b bytes.Buffer
	_ = printer.Fprint(&b, fset, n)
	return strings.Join(strings.Fields(b.String()), " ")
}

type site struct{ file, fn, callee, guard string }

type walker struct {
	file  string
	fn    string
	guard []string
	out   *[]site
	pkg   *pkgInfo
	depth int
	subst []sub // parameter -> argument text, applied to every printed guard / callee
}

type sub struct {
	re *regexp.Regexp
	to string
}

// pkgInfo: the functions of one package directory by simple name (methods and functions alike), and which of them are helpers.
type pkgInfo struct {
	funcs   map[string][]*ast.FuncDecl
	helpers map[string]*ast.FuncDecl
}

func (w walker) text(n ast.Node) string {
	t := src(n)
	for i := len(w.subst) - 1; i >= 0; i-- {
		t = w.subst[i].re.ReplaceAllString(t, w.subst[i].to)
	}
	return t
}

const maxInline = 3

func (w walker) with(g string) walker {
	n := w
	n.guard = append(append([]string{}, w.guard...), g)
	return n
}

// stmts walks a statement list. An `if c { ...; return/continue/break/goto/panic }` without else guards everything that follows
// it in the list: the statements after it run only when c is false ("not(c)" joins the guard chain).
func (w walker) stmts(l []ast.Stmt) {
	cur := w
	for _, s := range l {
		cur.node(s)
		if ifs, ok := s.(*ast.IfStmt); ok && ifs.Else == nil && terminates(ifs.Body) && src(ifs.Cond) != "err != nil" {
			// (plain error propagation `if [x := f();] err != nil { return }` is not recorded: it guards everything everywhere)
			g := cur.text(ifs.Cond)
			if ifs.Init != nil {
				g = cur.text(ifs.Init) + "; " + g
			}
			cur = cur.with("not(" + g + ")")
		}
	}
}

func terminates(b *ast.BlockStmt) bool {
	if b == nil || len(b.List) == 0 {
		return false
	}
	switch v := b.List[len(b.List)-1].(type) {
	case *ast.ReturnStmt:
		return true
	case *ast.BranchStmt:
		return v.Tok == token.CONTINUE || v.Tok == token.BREAK || v.Tok == token.GOTO
	case *ast.ExprStmt:
		if c, ok := v.X.(*ast.CallExpr); ok {
			if id, ok := c.Fun.(*ast.Ident); ok && id.Name == "panic" {
				return true
			}
		}
	}
	return false
}

// node walks statements keeping the guard chain; expressions are scanned for calls and function literals.
func (w walker) node(n ast.Node) {
	switch v := n.(type) {
	case nil:
		return
	case *ast.BlockStmt:
		if v != nil {
			w.stmts(v.List)
		}
	case *ast.IfStmt:
		g := w.text(v.Cond)
		if v.Init != nil {
			w.node(v.Init)
			g = w.text(v.Init) + "; " + g
		}
		w.expr(v.Cond)
		w.with(g).node(v.Body)
		if v.Else != nil {
			w.with("else(" + g + ")").node(v.Else)
		}
	case *ast.ForStmt:
		g := "for"
		if v.Cond != nil {
			g = "for " + w.text(v.Cond)
		}
		w.node(v.Init)
		if v.Cond != nil {
			w.expr(v.Cond)
		}
		w.node(v.Post)
		w.with(g).node(v.Body)
	case *ast.RangeStmt:
		w.expr(v.X)
		w.with("range " + w.text(v.X)).node(v.Body)
	case *ast.SwitchStmt:
		w.node(v.Init)
		tag := ""
		if v.Tag != nil {
			w.expr(v.Tag)
			tag = w.text(v.Tag) + " "
		}
		for _, c := range v.Body.List {
			cc := c.(*ast.CaseClause)
			g := "default"
			if cc.List != nil {
				var xs []string
				for _, e := range cc.List {
					xs = append(xs, w.text(e))
				}
				g = "case " + tag + strings.Join(xs, ", ")
			}
			w.with(g).stmts(cc.Body)
		}
	case *ast.TypeSwitchStmt:
		w.node(v.Init)
		w.node(v.Assign)
		for _, c := range v.Body.List {
			cc := c.(*ast.CaseClause)
			g := "default"
			if cc.List != nil {
				var xs []string
				for _, e := range cc.List {
					xs = append(xs, w.text(e))
				}
				g = "case type " + strings.Join(xs, ", ")
			}
			w.with(g).stmts(cc.Body)
		}
	case *ast.SelectStmt:
		for _, c := range v.Body.List {
			cc := c.(*ast.CommClause)
			g := "default"
			if cc.Comm != nil {
				g = "case " + w.text(cc.Comm)
				w.node(cc.Comm)
			}
			w.with(g).stmts(cc.Body)
		}
	case *ast.LabeledStmt:
		w.node(v.Stmt)
	case *ast.ExprStmt:
		w.expr(v.X)
	case *ast.AssignStmt:
		for _, e := range v.Rhs {
			w.expr(e)
		}
		for _, e := range v.Lhs {
			w.expr(e)
		}
	case *ast.ReturnStmt:
		for _, e := range v.Results {
			w.expr(e)
		}
	case *ast.DeferStmt:
		w.with("defer").expr(v.Call)
	case *ast.GoStmt:
		w.with("go").expr(v.Call)
	case *ast.SendStmt:
		w.expr(v.Chan)
		w.expr(v.Value)
	case *ast.IncDecStmt:
		w.expr(v.X)
	case *ast.DeclStmt:
		if gd, ok := v.Decl.(*ast.GenDecl); ok {
			for _, sp := range gd.Specs {
				if vs, ok := sp.(*ast.ValueSpec); ok {
					for _, e := range vs.Values {
						w.expr(e)
					}
				}
			}
		}
	case *ast.BranchStmt, *ast.EmptyStmt:
	default:
		if e, ok := n.(ast.Expr); ok {
			w.expr(e)
			return
		}
		fail("%s: unhandled statement kind %T", fset.Position(n.Pos()), n)
	}
}

// expr scans an expression: records matching calls, descends into function literals (guard chain kept, fn gets "/func").
func (w walker) expr(e ast.Expr) {
	if e == nil {
		return
	}
	ast.Inspect(e, func(n ast.Node) bool {
		switch v := n.(type) {
		case *ast.FuncLit:
			nw := w
			nw.fn = w.fn + "/func"
			nw.node(v.Body)
			return false
		case *ast.CallExpr:
			name := ""
			switch f := v.Fun.(type) {
			case *ast.SelectorExpr:
				name = f.Sel.Name
			case *ast.Ident:
				name = f.Name
			}
			if names[name] {
				*w.out = append(*w.out, site{w.file, w.fn, w.text(v.Fun), strings.Join(w.guard, " | ")})
			} else if h := w.pkg.helpers[name]; h != nil && w.depth < maxInline {
				// pass-through helper: its penalty calls belong to this call site
				nw := w
				nw.depth = w.depth + 1
				nw.subst = append(append([]sub{}, w.subst...), bindParams(h, v, w)...)
				nw.node(h.Body)
			}
		}
		return true
	})
}

// bindParams maps the parameter names (and the receiver name) of helper h to the printed arguments of call c.
func bindParams(h *ast.FuncDecl, c *ast.CallExpr, w walker) []sub {
	var out []sub
	add := func(name, to string) {
		if name == "" || name == "_" || name == to {
			return
		}
		out = append(out, sub{regexp.MustCompile(`\b` + regexp.QuoteMeta(name) + `\b`), strings.ReplaceAll(to, "$", "$$")})
	}
	if h.Recv != nil && len(h.Recv.List) == 1 && len(h.Recv.List[0].Names) == 1 {
		if sel, ok := c.Fun.(*ast.SelectorExpr); ok {
			add(h.Recv.List[0].Names[0].Name, w.text(sel.X))
		}
	}
	i := 0
	for _, f := range h.Type.Params.List {
		for _, nm := range f.Names {
			if i < len(c.Args) {
				add(nm.Name, w.text(c.Args[i]))
			}
			i++
		}
	}
	return out
}

// containsPenalty reports whether the body of f calls one of the four names directly or through helpers (fixed depth).
func containsPenalty(f *ast.FuncDecl, pi *pkgInfo, depth int) bool {
	found := false
	if f.Body == nil {
		return false
	}
	ast.Inspect(f.Body, func(n ast.Node) bool {
		c, ok := n.(*ast.CallExpr)
		if !ok {
			return true
		}
		name := ""
		switch fn := c.Fun.(type) {
		case *ast.SelectorExpr:
			name = fn.Sel.Name
		case *ast.Ident:
			name = fn.Name
		}
		if names[name] {
			found = true
		} else if depth < maxInline {
			if fs := pi.funcs[name]; len(fs) == 1 && fs[0] != f && containsPenalty(fs[0], pi, depth+1) {
				found = true
			}
		}
		return true
	})
	return found
}

func q(s string) string { return "\"" + strings.ReplaceAll(s, "\"", "\"\"") + "\"" }

func main() {
	repo := flag.String("repo", "/repo", "repository root")
	out := flag.String("out", "", "output .v file")
	flag.Parse()
	var files []string
	for _, top := range []string{"pkg", "cmd"} {
		_ = filepath.Walk(filepath.Join(*repo, top), func(p string, info os.FileInfo, err error) error {
			if err != nil || info.IsDir() {
				return nil
			}
			if strings.HasSuffix(p, ".go") && !strings.HasSuffix(p, "_test.go") && !strings.HasSuffix(p, "_verif.go") {
				files = append(files, p)
			}
			return nil
		})
	}
	sort.Strings(files)
	if len(files) < 50 {
		fail("only %d Go files found under %s", len(files), *repo)
	}
	var sites []site
	var decls []string
	// pass 1: parse, group by package directory, find the helpers
	type parsed struct {
		rel string
		f   *ast.File
	}
	byDir := map[string][]parsed{}
	var dirs []string
	for _, p := range files {
		f, err := parser.ParseFile(fset, p, nil, 0)
		if err != nil {
			fail("%v", err)
		}
		rel, _ := filepath.Rel(*repo, p)
		d := filepath.Dir(rel)
		if _, ok := byDir[d]; !ok {
			dirs = append(dirs, d)
		}
		byDir[d] = append(byDir[d], parsed{rel, f})
	}
	for _, d := range dirs {
		pi := &pkgInfo{funcs: map[string][]*ast.FuncDecl{}, helpers: map[string]*ast.FuncDecl{}}
		called := map[string]bool{}
		for _, pf := range byDir[d] {
			for _, decl := range pf.f.Decls {
				if fd, ok := decl.(*ast.FuncDecl); ok {
					pi.funcs[fd.Name.Name] = append(pi.funcs[fd.Name.Name], fd)
				}
			}
			ast.Inspect(pf.f, func(n ast.Node) bool {
				if c, ok := n.(*ast.CallExpr); ok {
					switch fn := c.Fun.(type) {
					case *ast.SelectorExpr:
						called[fn.Sel.Name] = true
					case *ast.Ident:
						called[fn.Name] = true
					}
				}
				return true
			})
		}
		for name, fs := range pi.funcs {
			if len(fs) != 1 || names[name] || ast.IsExported(name) || !called[name] || fs[0].Body == nil {
				continue
			}
			if containsPenalty(fs[0], pi, 0) {
				pi.helpers[name] = fs[0]
			}
		}
		// pass 2: walk every function that is not a helper
		for _, pf := range byDir[d] {
			rel := pf.rel
			for _, decl := range pf.f.Decls {
				switch v := decl.(type) {
				case *ast.FuncDecl:
					fn := v.Name.Name
					if v.Recv != nil && len(v.Recv.List) == 1 {
						fn = strings.TrimPrefix(src(v.Recv.List[0].Type), "*") + "." + fn
					}
					if names[v.Name.Name] {
						decls = append(decls, rel+":"+fn)
					}
					if v.Body != nil && pi.helpers[v.Name.Name] != v {
						walker{file: rel, fn: fn, out: &sites, pkg: pi}.node(v.Body)
					}
				case *ast.GenDecl:
					// package-level function values
					for _, sp := range v.Specs {
						if vs, ok := sp.(*ast.ValueSpec); ok {
							for i, e := range vs.Values {
								name := "_"
								if i < len(vs.Names) {
									name = vs.Names[i].Name
								}
								walker{file: rel, fn: "var " + name, out: &sites, pkg: pi}.expr(e)
							}
						}
						// interface methods with these names are declarations of use, list them too
						if ts, ok := sp.(*ast.TypeSpec); ok {
							if it, ok := ts.Type.(*ast.InterfaceType); ok {
								for _, m := range it.Methods.List {
									for _, id := range m.Names {
										if names[id.Name] {
											decls = append(decls, rel+":interface "+ts.Name.Name+"."+id.Name)
										}
									}
								}
							}
						}
					}
				}
			}
		}
	}
	sort.Strings(decls)
	var b strings.Builder
	b.WriteString("(* GENERATED by translate/penalties from the Go sources under pkg/ and cmd/ - do not edit. *)\n")
	b.WriteString("From Coq Require Import List String.\nFrom LE Require Import P2P.PenaltySites.\nImport ListNotations.\nLocal Open Scope string_scope.\n\n")
	b.WriteString("Definition gen_penalty_sites : list psite :=\n  [")
	for i, s := range sites {
		if i > 0 {
			b.WriteString(";\n   ")
		}
		b.WriteString(fmt.Sprintf("mkSite %s %s %s %s", q(s.file), q(s.fn), q(s.callee), q(s.guard)))
	}
	b.WriteString("].\n\nDefinition gen_penalty_decls : list string :=\n  [")
	for i, d := range decls {
		if i > 0 {
			b.WriteString(";\n   ")
		}
		b.WriteString(q(d))
	}
	b.WriteString("].\n")
	if *out == "" {
		fmt.Print(b.String())
		return
	}
	if old, err := os.ReadFile(*out); err == nil && string(old) == b.String() {
		return
	}
	if err := os.WriteFile(*out, []byte(b.String()), 0o644); err != nil {
		fail("%v", err)
	}
}
