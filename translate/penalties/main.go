// Penalty call-site translator for C18 (stdlib only). Walks every non-test, non-verif Go file under <repo>/pkg and <repo>/cmd
// and lists every call of ApplyPenalty / BanPeer / banPeer / addPenalty: file, enclosing function (method name, "/func" appended
// per enclosing function literal), callee as written, and the chain of guarding conditions from the outermost to the innermost
// (if conditions with their init statement, "else(<cond>)" for else branches, "range <expr>" / "for <cond>" for loops,
// "case <expr>" for switch/select clauses). The list is emitted to coq/Gen/Penalties.v; Coq checks it equals the catalogue in
// coq/P2P/PenaltySites.v, so a removed, added, moved or re-guarded penalty site breaks an obligation.
// Also emitted: the functions that *declare* these names (so that a new wrapper is noticed).
package main

import (
	"bytes"
	"flag"
	"fmt"
	"go/ast"
	"go/parser"
	"go/printer"
	"go/token"
	"os"
	"path/filepath"
	"sort"
	"strings"
)

var names = map[string]bool{"ApplyPenalty": true, "BanPeer": true, "banPeer": true, "addPenalty": true}

var fset = token.NewFileSet()

func fail(f string, a ...interface{}) {
	fmt.Fprintf(os.Stderr, "penalties: "+f+"\n", a...)
	os.Exit(2)
}

func src(n ast.Node) string {
	var b bytes.Buffer
	_ = printer.Fprint(&b, fset, n)
	return strings.Join(strings.Fields(b.String()), " ")
}

type site struct{ file, fn, callee, guard string }

type walker struct {
	file  string
	fn    string
	guard []string
	out   *[]site
}

func (w walker) with(g string) walker {
	n := w
	n.guard = append(append([]string{}, w.guard...), g)
	return n
}

func (w walker) stmts(l []ast.Stmt) {
	for _, s := range l {
		w.node(s)
	}
}

// node walks statements keeping the guard chain; expressions are scanned for calls and function literals.
func (w walker) node(n ast.Node) {
	switch v := n.(type) {
	case nil:
		return
	case *ast.BlockStmt:
		if v != nil {
			w.stmts(v.List)
		}
	case *ast.IfStmt:
		g := src(v.Cond)
		if v.Init != nil {
			w.node(v.Init)
			g = src(v.Init) + "; " + g
		}
		w.expr(v.Cond)
		w.with(g).node(v.Body)
		if v.Else != nil {
			w.with("else(" + g + ")").node(v.Else)
		}
	case *ast.ForStmt:
		g := "for"
		if v.Cond != nil {
			g = "for " + src(v.Cond)
		}
		w.node(v.Init)
		if v.Cond != nil {
			w.expr(v.Cond)
		}
		w.node(v.Post)
		w.with(g).node(v.Body)
	case *ast.RangeStmt:
		w.expr(v.X)
		w.with("range " + src(v.X)).node(v.Body)
	case *ast.SwitchStmt:
		w.node(v.Init)
		tag := ""
		if v.Tag != nil {
			w.expr(v.Tag)
			tag = src(v.Tag) + " "
		}
		for _, c := range v.Body.List {
			cc := c.(*ast.CaseClause)
			g := "default"
			if cc.List != nil {
				var xs []string
				for _, e := range cc.List {
					xs = append(xs, src(e))
				}
				g = "case " + tag + strings.Join(xs, ", ")
			}
			w.with(g).stmts(cc.Body)
		}
	case *ast.TypeSwitchStmt:
		w.node(v.Init)
		w.node(v.Assign)
		for _, c := range v.Body.List {
			cc := c.(*ast.CaseClause)
			g := "default"
			if cc.List != nil {
				var xs []string
				for _, e := range cc.List {
					xs = append(xs, src(e))
				}
				g = "case type " + strings.Join(xs, ", ")
			}
			w.with(g).stmts(cc.Body)
		}
	case *ast.SelectStmt:
		for _, c := range v.Body.List {
			cc := c.(*ast.CommClause)
			g := "default"
			if cc.Comm != nil {
				g = "case " + src(cc.Comm)
				w.node(cc.Comm)
			}
			w.with(g).stmts(cc.Body)
		}
	case *ast.LabeledStmt:
		w.node(v.Stmt)
	case *ast.ExprStmt:
		w.expr(v.X)
	case *ast.AssignStmt:
		for _, e := range v.Rhs {
			w.expr(e)
		}
		for _, e := range v.Lhs {
			w.expr(e)
		}
	case *ast.ReturnStmt:
		for _, e := range v.Results {
			w.expr(e)
		}
	case *ast.DeferStmt:
		w.with("defer").expr(v.Call)
	case *ast.GoStmt:
		w.with("go").expr(v.Call)
	case *ast.SendStmt:
		w.expr(v.Chan)
		w.expr(v.Value)
	case *ast.IncDecStmt:
		w.expr(v.X)
	case *ast.DeclStmt:
		if gd, ok := v.Decl.(*ast.GenDecl); ok {
			for _, sp := range gd.Specs {
				if vs, ok := sp.(*ast.ValueSpec); ok {
					for _, e := range vs.Values {
						w.expr(e)
					}
				}
			}
		}
	case *ast.BranchStmt, *ast.EmptyStmt:
	default:
		if e, ok := n.(ast.Expr); ok {
			w.expr(e)
			return
		}
		fail("%s: unhandled statement kind %T", fset.Position(n.Pos()), n)
	}
}

// expr scans an expression: records matching calls, descends into function literals (guard chain kept, fn gets "/func").
func (w walker) expr(e ast.Expr) {
	if e == nil {
		return
	}
	ast.Inspect(e, func(n ast.Node) bool {
		switch v := n.(type) {
		case *ast.FuncLit:
			nw := w
			nw.fn = w.fn + "/func"
			nw.node(v.Body)
			return false
		case *ast.CallExpr:
			name := ""
			switch f := v.Fun.(type) {
			case *ast.SelectorExpr:
				name = f.Sel.Name
			case *ast.Ident:
				name = f.Name
			}
			if names[name] {
				*w.out = append(*w.out, site{w.file, w.fn, src(v.Fun), strings.Join(w.guard, " | ")})
			}
		}
		return true
	})
}

func q(s string) string { return "\"" + strings.ReplaceAll(s, "\"", "\"\"") + "\"" }

func main() {
	repo := flag.String("repo", "/repo", "repository root")
	out := flag.String("out", "", "output .v file")
	flag.Parse()
	var files []string
	for _, top := range []string{"pkg", "cmd"} {
		_ = filepath.Walk(filepath.Join(*repo, top), func(p string, info os.FileInfo, err error) error {
			if err != nil || info.IsDir() {
				return nil
			}
			if strings.HasSuffix(p, ".go") && !strings.HasSuffix(p, "_test.go") && !strings.HasSuffix(p, "_verif.go") {
				files = append(files, p)
			}
			return nil
		})
	}
	sort.Strings(files)
	if len(files) < 50 {
		fail("only %d Go files found under %s", len(files), *repo)
	}
	var sites []site
	var decls []string
	for _, p := range files {
		f, err := parser.ParseFile(fset, p, nil, 0)
		if err != nil {
			fail("%v", err)
		}
		rel, _ := filepath.Rel(*repo, p)
		for _, d := range f.Decls {
			switch v := d.(type) {
			case *ast.FuncDecl:
				fn := v.Name.Name
				if v.Recv != nil && len(v.Recv.List) == 1 {
					fn = strings.TrimPrefix(src(v.Recv.List[0].Type), "*") + "." + fn
				}
				if names[v.Name.Name] {
					decls = append(decls, rel+":"+fn)
				}
				if v.Body != nil {
					walker{file: rel, fn: fn, out: &sites}.node(v.Body)
				}
			case *ast.GenDecl:
				// package-level function values
				for _, sp := range v.Specs {
					if vs, ok := sp.(*ast.ValueSpec); ok {
						for i, e := range vs.Values {
							name := "_"
							if i < len(vs.Names) {
								name = vs.Names[i].Name
							}
							walker{file: rel, fn: "var " + name, out: &sites}.expr(e)
						}
					}
					// interface methods with these names are declarations of use, list them too
					if ts, ok := sp.(*ast.TypeSpec); ok {
						if it, ok := ts.Type.(*ast.InterfaceType); ok {
							for _, m := range it.Methods.List {
								for _, id := range m.Names {
									if names[id.Name] {
										decls = append(decls, rel+":interface "+ts.Name.Name+"."+id.Name)
									}
								}
							}
						}
					}
				}
			}
		}
	}
	sort.Strings(decls)
	var b strings.Builder
	b.WriteString("(* GENERATED by translate/penalties from the Go sources under pkg/ and cmd/ - do not edit. *)\n")
	b.WriteString("From Coq Require Import List String.\nFrom LE Require Import P2P.PenaltySites.\nImport ListNotations.\nLocal Open Scope string_scope.\n\n")
	b.WriteString("Definition gen_penalty_sites : list psite :=\n  [")
	for i, s := range sites {
		if i > 0 {
			b.WriteString(";\n   ")
		}
		b.WriteString(fmt.Sprintf("mkSite %s %s %s %s", q(s.file), q(s.fn), q(s.callee), q(s.guard)))
	}
	b.WriteString("].\n\nDefinition gen_penalty_decls : list string :=\n  [")
	for i, d := range decls {
		if i > 0 {
			b.WriteString(";\n   ")
		}
		b.WriteString(q(d))
	}
	b.WriteString("].\n")
	if *out == "" {
		fmt.Print(b.String())
		return
	}
	if old, err := os.ReadFile(*out); err == nil && string(old) == b.String() {
		return
	}
	if err := os.WriteFile(*out, []byte(b.String()), 0o644); err != nil {
		fail("%v", err)
	}
}
