// Request/response skeleton translator for C17 (stdlib only). Reads pkg/p2p/message_protocol.go and emits coq/Gen/ReqResp.v:
//   - gen_send_skel   : token list of MessageProtocol.sendRequestMessage (order of register vs send, what is done under resMu,
//                       channel capacity, select branches, drain after timeout)
//   - gen_onresp_skel : token list of MessageProtocol.onResponse from mp.resMu.Lock() on (lookup, blocking / non-blocking send)
//   - gen_max_retries, gen_timeout_ms : the constants messageMaxRetries, messageResponseTimeout
// and checks (fail closed, exit 2) that: every statement of the two functions has a recognised shape, the part of onResponse
// before the Lock does not touch resMu/resCh/channels, request() is the retry loop `for i := 0; i <= messageMaxRetries; i++`
// that continues only on errTimeout, and no other function of the package (non-test, non-verif files) uses resMu or resCh.
package main

import (
	"bytes"
	"flag"
	"fmt"
	"go/ast"
	"go/parser"
	"go/printer"
	"go/token"
	"os"
	"path/filepath"
	"sort"
	"strconv"
	"strings"
)

func fail(f string, a ...interface{}) {
	fmt.Fprintf(os.Stderr, "reqresp: "+f+"\n", a...)
	os.Exit(2)
}

var fset = token.NewFileSet()

func src(n ast.Node) string {
	var b bytes.Buffer
	_ = printer.Fprint(&b, fset, n)
	return strings.Join(strings.Fields(b.String()), " ")
}

func pos(n ast.Node) string { return fset.Position(n.Pos()).String() }

// isCall reports whether e is a call whose function prints as name (e.g. "mp.resMu.Lock").
func isCall(e ast.Expr, name string) (*ast.CallExpr, bool) {
	c, ok := e.(*ast.CallExpr)
	if !ok {
		return nil, false
	}
	return c, src(c.Fun) == name
}

func mentions(n ast.Node, what ...string) bool {
	found := false
	ast.Inspect(n, func(x ast.Node) bool {
		switch v := x.(type) {
		case *ast.SelectorExpr:
			for _, w := range what {
				if v.Sel.Name == w {
					found = true
				}
			}
		}
		return true
	})
	return found
}

func hasChanOp(n ast.Node) bool {
	found := false
	ast.Inspect(n, func(x ast.Node) bool {
		switch v := x.(type) {
		case *ast.SendStmt, *ast.SelectStmt, *ast.GoStmt:
			found = true
		case *ast.UnaryExpr:
			if v.Op == token.ARROW {
				found = true
			}
		}
		return true
	})
	return found
}

type emitter struct{ toks []string }

func (e *emitter) put(t string) { e.toks = append(e.toks, t) }

// lockStmt recognises mp.resMu.Lock() / Unlock() / defer Unlock().
func lockStmt(s ast.Stmt) string {
	switch v := s.(type) {
	case *ast.ExprStmt:
		if _, ok := isCall(v.X, "mp.resMu.Lock"); ok {
			return "KLock"
		}
		if _, ok := isCall(v.X, "mp.resMu.Unlock"); ok {
			return "KUnlock"
		}
	case *ast.DeferStmt:
		if src(v.Call.Fun) == "mp.resMu.Unlock" {
			return "KDeferUnlock"
		}
	}
	return ""
}

func isLoggerCall(s ast.Stmt) bool {
	es, ok := s.(*ast.ExprStmt)
	if !ok {
		return false
	}
	c, ok := es.X.(*ast.CallExpr)
	if !ok {
		return false
	}
	return strings.HasPrefix(src(c.Fun), "mp.logger.") && !hasChanOp(s) && !mentions(s, "resMu", "resCh")
}

func retTok(s *ast.ReturnStmt) string {
	switch src(s) {
	case "return nil, err":
		return "KReturnErr"
	case "return resMsg, nil":
		return "KReturnRes"
	case "return nil, errTimeout":
		return "KReturnTimeout"
	case "return nil, ctx.Err()":
		return "KReturnCtxErr"
	}
	fail("%s: unrecognised return %q", pos(s), src(s))
	return ""
}

// sendStmts translates a statement list of sendRequestMessage.
func (e *emitter) sendStmts(list []ast.Stmt, inTimeout bool) {
	for _, s := range list {
		if t := lockStmt(s); t != "" {
			e.put(t)
			continue
		}
		switch v := s.(type) {
		case *ast.AssignStmt:
			txt := src(v)
			switch {
			case strings.HasPrefix(txt, "reqMsg := newRequestMessage("):
				e.put("KNewMsg")
			case txt == "ch := make(chan *Response)":
				e.put("(KMakeChan 0)")
			case strings.HasPrefix(txt, "ch := make(chan *Response, "):
				c := v.Rhs[0].(*ast.CallExpr)
				lit, ok := c.Args[1].(*ast.BasicLit)
				if !ok || lit.Kind != token.INT {
					fail("%s: channel capacity is not an integer literal: %s", pos(v), txt)
				}
				e.put("(KMakeChan " + lit.Value + ")")
			case txt == "mp.resCh[reqMsg.ID] = ch":
				e.put("KRegister")
			default:
				fail("%s: unrecognised assignment in sendRequestMessage: %s", pos(v), txt)
			}
		case *ast.ExprStmt:
			if c, ok := isCall(v.X, "delete"); ok && src(c) == "delete(mp.resCh, reqMsg.ID)" {
				e.put("KDelete")
			} else if isLoggerCall(v) {
				// logging only
			} else {
				fail("%s: unrecognised statement in sendRequestMessage: %s", pos(v), src(v))
			}
		case *ast.IfStmt:
			// if err := mp.send(...reqMsg); err != nil { ... }
			if v.Init == nil || v.Else != nil || src(v.Cond) != "err != nil" || !strings.HasPrefix(src(v.Init), "err := mp.send(") ||
				!strings.HasSuffix(src(v.Init), ", reqMsg)") {
				fail("%s: unrecognised if in sendRequestMessage: %s", pos(v), src(v))
			}
			e.put("KSend")
			e.put("KOnSendErr")
			e.sendStmts(v.Body.List, false)
			e.put("KEndOnSendErr")
		case *ast.ReturnStmt:
			e.put(retTok(v))
		case *ast.SelectStmt:
			if inTimeout {
				// drain: select { case resMsg := <-ch: return resMsg, nil; default: }
				if len(v.Body.List) != 2 {
					fail("%s: unrecognised nested select", pos(v))
				}
				c0 := v.Body.List[0].(*ast.CommClause)
				c1 := v.Body.List[1].(*ast.CommClause)
				if c0.Comm == nil || src(c0.Comm) != "resMsg := <-ch" || len(c0.Body) != 1 || src(c0.Body[0]) != "return resMsg, nil" ||
					c1.Comm != nil || len(c1.Body) != 0 {
					fail("%s: nested select is not the drain idiom: %s", pos(v), src(v))
				}
				e.put("KDrain")
				continue
			}
			e.put("KSelect")
			for _, cc := range v.Body.List {
				cl := cc.(*ast.CommClause)
				if cl.Comm == nil {
					fail("%s: select in sendRequestMessage has a default clause", pos(cl))
				}
				switch src(cl.Comm) {
				case "resMsg := <-ch":
					e.put("KCaseRecv")
					e.sendStmts(cl.Body, false)
				case "<-time.After(mp.timeout)":
					e.put("KCaseTimeout")
					e.sendStmts(cl.Body, true)
				case "<-ctx.Done()":
					e.put("KCaseCtx")
					e.sendStmts(cl.Body, false)
				default:
					fail("%s: unrecognised select case %q", pos(cl), src(cl.Comm))
				}
			}
			e.put("KEndSelect")
		default:
			fail("%s: unrecognised statement in sendRequestMessage: %s", pos(s), src(s))
		}
	}
}

// onRespLocked translates onResponse from the Lock on.
func (e *emitter) onRespLocked(list []ast.Stmt) {
	for _, s := range list {
		if t := lockStmt(s); t != "" {
			e.put(t)
			continue
		}
		v, ok := s.(*ast.IfStmt)
		if !ok || v.Init == nil || src(v.Init) != "ch, ok := mp.resCh[newMsg.ID]" || src(v.Cond) != "ok" {
			fail("%s: unrecognised statement under resMu in onResponse: %s", pos(s), src(s))
		}
		e.put("KLookup")
		sends := 0
		for _, b := range v.Body.List {
			switch w := b.(type) {
			case *ast.SendStmt:
				if src(w.Chan) != "ch" {
					fail("%s: send on an unexpected channel", pos(w))
				}
				e.put("KSendChanBlocking")
				sends++
			case *ast.SelectStmt:
				if len(w.Body.List) != 2 {
					fail("%s: unrecognised select under resMu", pos(w))
				}
				c0 := w.Body.List[0].(*ast.CommClause)
				c1 := w.Body.List[1].(*ast.CommClause)
				snd, ok := c0.Comm.(*ast.SendStmt)
				if !ok || src(snd.Chan) != "ch" || len(c0.Body) != 0 || c1.Comm != nil {
					fail("%s: select under resMu is not the non-blocking send idiom: %s", pos(w), src(w))
				}
				for _, d := range c1.Body {
					if !isLoggerCall(d) {
						fail("%s: default clause does more than logging: %s", pos(d), src(d))
					}
				}
				e.put("KSendChanNonBlocking")
				sends++
			default:
				// pure local computation of the Response value (no channel op, no resMu/resCh, no goroutine)
				if hasChanOp(b) || mentions(b, "resMu", "resCh") {
					fail("%s: unexpected blocking statement under resMu: %s", pos(b), src(b))
				}
				switch b.(type) {
				case *ast.DeclStmt, *ast.IfStmt, *ast.AssignStmt:
				default:
					if !isLoggerCall(b) {
						fail("%s: unrecognised statement under resMu: %s", pos(b), src(b))
					}
				}
			}
		}
		if sends != 1 {
			fail("%s: expected exactly one channel send under resMu, found %d", pos(v), sends)
		}
		blk, ok := v.Else.(*ast.BlockStmt)
		if !ok {
			fail("%s: missing else branch of the lookup", pos(v))
		}
		for _, d := range blk.List {
			if !isLoggerCall(d) {
				fail("%s: unknown-ID branch does more than logging: %s", pos(d), src(d))
			}
		}
		e.put("KWarnUnknown")
	}
}

func main() {
	repo := flag.String("repo", "/repo", "repository root")
	out := flag.String("out", "", "output .v file")
	flag.Parse()
	dir := filepath.Join(*repo, "pkg/p2p")
	ents, err := os.ReadDir(dir)
	if err != nil {
		fail("%v", err)
	}
	funcs := map[string]*ast.FuncDecl{}
	users := map[string]bool{}
	consts := map[string]string{}
	for _, en := range ents {
		n := en.Name()
		if !strings.HasSuffix(n, ".go") || strings.HasSuffix(n, "_test.go") || strings.HasSuffix(n, "_verif.go") {
			continue
		}
		f, err := parser.ParseFile(fset, filepath.Join(dir, n), nil, 0)
		if err != nil {
			fail("%v", err)
		}
		for _, d := range f.Decls {
			switch v := d.(type) {
			case *ast.FuncDecl:
				if v.Body != nil && mentions(v.Body, "resMu", "resCh") {
					users[v.Name.Name] = true
				}
				if n == "message_protocol.go" {
					funcs[v.Name.Name] = v
				}
			case *ast.GenDecl:
				if v.Tok == token.CONST {
					for _, sp := range v.Specs {
						vs := sp.(*ast.ValueSpec)
						for i, id := range vs.Names {
							if i < len(vs.Values) {
								consts[id.Name] = src(vs.Values[i])
							}
						}
					}
				}
			}
		}
	}
	var us []string
	for u := range users {
		us = append(us, u)
	}
	sort.Strings(us)
	if strings.Join(us, ",") != "onResponse,sendRequestMessage" {
		fail("resMu/resCh are used by an unexpected set of functions: %v", us)
	}

	// constants
	retries, err := strconv.Atoi(consts["messageMaxRetries"])
	if err != nil || retries < 0 {
		fail("messageMaxRetries is not a non-negative integer literal: %q", consts["messageMaxRetries"])
	}
	var timeoutMs int
	switch t := consts["messageResponseTimeout"]; {
	case strings.HasSuffix(t, " * time.Second"):
		n, err := strconv.Atoi(strings.TrimSuffix(t, " * time.Second"))
		if err != nil {
			fail("unrecognised messageResponseTimeout %q", t)
		}
		timeoutMs = n * 1000
	case strings.HasSuffix(t, " * time.Millisecond"):
		n, err := strconv.Atoi(strings.TrimSuffix(t, " * time.Millisecond"))
		if err != nil {
			fail("unrecognised messageResponseTimeout %q", t)
		}
		timeoutMs = n
	default:
		fail("unrecognised messageResponseTimeout %q", t)
	}
	// newMessageProtocol must initialise timeout from the constant
	if np := funcs["newMessageProtocol"]; np == nil || !strings.Contains(src(np.Body), "timeout: messageResponseTimeout") {
		fail("newMessageProtocol does not initialise timeout from messageResponseTimeout")
	}

	// request(): retry loop
	rq := funcs["request"]
	if rq == nil {
		fail("request not found")
	}
	okLoop := false
	ast.Inspect(rq.Body, func(n ast.Node) bool {
		fs, ok := n.(*ast.ForStmt)
		if !ok {
			return true
		}
		if fs.Init == nil || fs.Cond == nil || fs.Post == nil || src(fs.Init) != "i := 0" || src(fs.Cond) != "i <= messageMaxRetries" || src(fs.Post) != "i++" {
			fail("%s: retry loop header changed: for %s; %s; %s", pos(fs), src(fs.Init), src(fs.Cond), src(fs.Post))
		}
		body := src(fs.Body)
		if !strings.Contains(body, "res, err = mp.sendRequestMessage(ctx, id, procedure, data)") ||
			!strings.Contains(body, "if err != nil { if errors.Is(err, errTimeout) { continue } return nil, err } return res, nil") {
			fail("%s: retry loop body changed: %s", pos(fs), body)
		}
		okLoop = true
		return false
	})
	if !okLoop {
		fail("request(): retry loop not found")
	}

	// sendRequestMessage
	sr := funcs["sendRequestMessage"]
	if sr == nil {
		fail("sendRequestMessage not found")
	}
	var se emitter
	se.sendStmts(sr.Body.List, false)

	// onResponse: prelude must not touch the shared state, then the locked part
	or := funcs["onResponse"]
	if or == nil {
		fail("onResponse not found")
	}
	lockAt := -1
	for i, s := range or.Body.List {
		if lockStmt(s) == "KLock" {
			lockAt = i
			break
		}
		if hasChanOp(s) || mentions(s, "resMu", "resCh") {
			fail("%s: onResponse touches channels/resMu/resCh before taking the lock: %s", pos(s), src(s))
		}
	}
	if lockAt < 0 {
		fail("onResponse: mp.resMu.Lock() not found at top level")
	}
	var oe emitter
	oe.onRespLocked(or.Body.List[lockAt:])

	var b strings.Builder
	b.WriteString("(* GENERATED by translate/reqresp from pkg/p2p/message_protocol.go - do not edit. *)\n")
	b.WriteString("From Coq Require Import List NArith.\nFrom LE Require Import P2P.ReqResp.\nImport ListNotations.\nLocal Open Scope N_scope.\n\n")
	b.WriteString("Definition gen_send_skel : list tok :=\n  [" + strings.Join(se.toks, "; ") + "].\n\n")
	b.WriteString("Definition gen_onresp_skel : list tok :=\n  [" + strings.Join(oe.toks, "; ") + "].\n\n")
	b.WriteString(fmt.Sprintf("Definition gen_max_retries : N := %d.\nDefinition gen_timeout_ms : N := %d.\n", retries, timeoutMs))
	if *out == "" {
		fmt.Print(b.String())
		return
	}
	if old, err := os.ReadFile(*out); err == nil && string(old) == b.String() {
		return
	}
	if err := os.WriteFile(*out, []byte(b.String()), 0o644); err != nil {
		fail("%v", err)
	}
}
