// Request/response skeleton translator for C17 (stdlib only). Reads pkg/p2p/message_protocol.go and emits coq/Gen/ReqResp.v:
//   - gen_send_skel   : token list of MessageProtocol.sendRequestMessage (order of register vs send, what is done under resMu,
//     channel capacity, select branches, drain after timeout)
//   - gen_onresp_skel : token list of MessageProtocol.onResponse from mp.resMu.Lock() on (lookup, blocking / non-blocking send)
//   - gen_max_retries, gen_timeout_ms : the constants messageMaxRetries, messageResponseTimeout
//
// Same-receiver helper methods of MessageProtocol that touch resMu / resCh / channels are INLINED (fixed depth 3, parameters and the
// receiver name substituted textually, a deferred Unlock of the helper becomes an Unlock at its end) before the skeleton is read, so
// that moving e.g. the Lock; delete; Unlock block into a helper called at the same position yields the same token list.
// and checks (fail closed, exit 2) that: every statement of the two functions has a recognised shape, the part of onResponse
// before the Lock does not touch resMu/resCh/channels, request() is the retry loop `for i := 0; i <= messageMaxRetries; i++`
// that continues only on errTimeout, and no other function of the package (non-test, non-verif files) uses resMu or resCh.
package main

import (
	"bytes"
	"flag"
	"fmt"
	"go/ast"
	"go/parser"
	"go/printer"
	"go/token"
	"os"
	"path/filepath"
	"regexp"
	"sort"
	"strconv"
	"strings"
)

func fail(f string, a ...interface{}) {
	fmt.Fprintf(os.Stderr, "reqresp: "+f+"\n", a...)
	os.Exit(2)
}

var fset = token.NewFileSet()

func src(n ast.Node) string {
	var b bytes.Buffer
	_ = printer.Fprint(&b, fset, n)
	return strings.Join(strings.Fields(b.String()), " ")
}

func pos(n ast.Node) string { return fset.Position(n.Pos()).String() }

// isCall reports whether e is a call whose function prints as name (e.g. "mp.resMu.Lock").
func isCall(e ast.Expr, name string) (*ast.CallExpr, bool) {
	c, ok := e.(*ast.CallExpr)
	if !ok {
		return nil, false
	}
	return c, src(c.Fun) == name
}

func mentions(n ast.Node, what ...string) bool {
	found := false
	ast.Inspect(n, func(x ast.Node) bool {
		switch v := x.(type) {
		case *ast.SelectorExpr:
			for _, w := range what {
				if v.Sel.Name == w {
					found = true
				}
			}
		}
		return true
	})
	return found
}

func hasChanOp(n ast.Node) bool {
	found := false
	ast.Inspect(n, func(x ast.Node) bool {
		switch v := x.(type) {
		case *ast.SendStmt, *ast.SelectStmt, *ast.GoStmt:
			found = true
		case *ast.UnaryExpr:
			if v.Op == token.ARROW {
				found = true
			}
		}
		return true
	})
	return found
}

// ---- helper inlining

var mpMethods = map[string]*ast.FuncDecl{} // methods with receiver *MessageProtocol of the package (non-test, non-verif files)
var simpleArg = regexp.MustCompile(`^[A-Za-z_][A-Za-z0-9_]*(\.[A-Za-z_][A-Za-z0-9_]*|\(\))*$`)

const maxInline = 3

// touchesShared: the node uses resMu / resCh / a channel operation, directly or through MessageProtocol methods (fixed depth).
func touchesShared(n ast.Node, depth int) bool {
	if n == nil {
		return false
	}
	if mentions(n, "resMu", "resCh") || hasChanOp(n) {
		return true
	}
	if depth >= maxInline {
		return false
	}
	found := false
	ast.Inspect(n, func(x ast.Node) bool {
		if c, ok := x.(*ast.CallExpr); ok {
			if sel, ok := c.Fun.(*ast.SelectorExpr); ok {
				if id, ok := sel.X.(*ast.Ident); ok && id.Name == "mp" {
					if h := mpMethods[sel.Sel.Name]; h != nil && h.Body != nil && touchesShared(h.Body, depth+1) {
						found = true
					}
				}
			}
		}
		return true
	})
	return found
}

// helperCall: s is a statement `mp.h(args)` where h is an inlinable helper.
func helperCall(s ast.Stmt) (*ast.FuncDecl, *ast.CallExpr) {
	es, ok := s.(*ast.ExprStmt)
	if !ok {
		return nil, nil
	}
	c, ok := es.X.(*ast.CallExpr)
	if !ok {
		return nil, nil
	}
	sel, ok := c.Fun.(*ast.SelectorExpr)
	if !ok {
		return nil, nil
	}
	if id, ok := sel.X.(*ast.Ident); !ok || id.Name != "mp" {
		return nil, nil
	}
	h := mpMethods[sel.Sel.Name]
	if h == nil || h.Body == nil || !touchesShared(h.Body, 0) {
		return nil, nil
	}
	return h, c
}

// expand replaces calls of inlinable helpers by their (substituted, re-parsed) bodies.
func expand(list []ast.Stmt, depth int) []ast.Stmt {
	var out []ast.Stmt
	for _, s := range list {
		h, c := helperCall(s)
		if h == nil {
			out = append(out, s)
			continue
		}
		if depth >= maxInline {
			fail("%s: helper calls nested deeper than %d: %s", pos(s), maxInline, src(s))
		}
		if h.Type.Results != nil && len(h.Type.Results.List) > 0 {
			fail("%s: helper %s returns values, cannot be inlined as a statement", pos(s), h.Name.Name)
		}
		var body []string
		deferred := ""
		for i, st := range h.Body.List {
			switch v := st.(type) {
			case *ast.DeferStmt:
				if deferred != "" {
					fail("%s: helper %s defers more than one call", pos(st), h.Name.Name)
				}
				deferred = src(v.Call)
				continue
			case *ast.ReturnStmt:
				if i != len(h.Body.List)-1 || len(v.Results) != 0 {
					fail("%s: helper %s returns early, cannot be inlined", pos(st), h.Name.Name)
				}
				continue
			}
			ast.Inspect(st, func(x ast.Node) bool {
				if r, ok := x.(*ast.ReturnStmt); ok {
					fail("%s: helper %s returns early, cannot be inlined", pos(r), h.Name.Name)
				}
				if _, ok := x.(*ast.FuncLit); ok {
					return false
				}
				return true
			})
			body = append(body, src(st))
		}
		if deferred != "" {
			body = append(body, deferred) // a deferred call of the helper runs at the helper's end
		}
		txt := strings.Join(body, "\n")
		subst := func(name, to string) {
			if name == "" || name == "_" || name == to {
				return
			}
			if !simpleArg.MatchString(to) {
				to = "(" + to + ")"
			}
			txt = regexp.MustCompile(`\b`+regexp.QuoteMeta(name)+`\b`).ReplaceAllString(txt, strings.ReplaceAll(to, "$", "$$"))
		}
		if len(h.Recv.List[0].Names) == 1 {
			subst(h.Recv.List[0].Names[0].Name, "mp")
		}
		i := 0
		for _, f := range h.Type.Params.List {
			for _, nm := range f.Names {
				if i < len(c.Args) {
					subst(nm.Name, src(c.Args[i]))
				}
				i++
			}
		}
		f, err := parser.ParseFile(fset, "inlined_"+h.Name.Name+".go", "package p\nfunc _() {\n"+txt+"\n}\n", 0)
		if err != nil {
			fail("%s: cannot re-parse the inlined body of %s: %v", pos(s), h.Name.Name, err)
		}
		out = append(out, expand(f.Decls[0].(*ast.FuncDecl).Body.List, depth+1)...)
	}
	return out
}

type emitter struct{ toks []string }

func (e *emitter) put(t string) { e.toks = append(e.toks, t) }

// lockStmt recognises mp.resMu.Lock() / Unlock() / defer Unlock().
func lockStmt(s ast.Stmt) string {
	switch v := s.(type) {
	case *ast.ExprStmt:
		if _, ok := isCall(v.X, "mp.resMu.Lock"); ok {
			return "KLock"
		}
		if _, ok := isCall(v.X, "mp.resMu.Unlock"); ok {
			return "KUnlock"
		}
	case *ast.DeferStmt:
		if src(v.Call.Fun) == "mp.resMu.Unlock" {
			return "KDeferUnlock"
		}
	}
	return ""
}

func isLoggerCall(s ast.Stmt) bool {
	es, ok := s.(*ast.ExprStmt)
	if !ok {
		return false
	}
	c, ok := es.X.(*ast.CallExpr)
	if !ok {
		return false
	}
	return strings.HasPrefix(src(c.Fun), "mp.logger.") && !hasChanOp(s) && !mentions(s, "resMu", "resCh")
}

func retTok(s *ast.ReturnStmt) string {
	switch src(s) {
	case "return nil, err":
		return "KReturnErr"
	case "return resMsg, nil":
		return "KReturnRes"
	case "return nil, errTimeout":
		return "KReturnTimeout"
	case "return nil, ctx.Err()":
		return "KReturnCtxErr"
	}
	fail("%s: unrecognised return %q", pos(s), src(s))
	return ""
}

// sendStmts translates a statement list of sendRequestMessage.
func (e *emitter) sendStmts(list []ast.Stmt, inTimeout bool) {
	list = expand(list, 0)
	for _, s := range list {
		if t := lockStmt(s); t != "" {
			e.put(t)
			continue
		}
		switch v := s.(type) {
		case *ast.AssignStmt:
			txt := src(v)
			switch {
			case strings.HasPrefix(txt, "reqMsg := newRequestMessage("):
				e.put("KNewMsg")
			case txt == "ch := make(chan *Response)":
				e.put("(KMakeChan 0)")
			case strings.HasPrefix(txt, "ch := make(chan *Response, "):
				c := v.Rhs[0].(*ast.CallExpr)
				lit, ok := c.Args[1].(*ast.BasicLit)
				if !ok || lit.Kind != token.INT {
					fail("%s: channel capacity is not an integer literal: %s", pos(v), txt)
				}
				e.put("(KMakeChan " + lit.Value + ")")
			case txt == "mp.resCh[reqMsg.ID] = ch":
				e.put("KRegister")
			default:
				fail("%s: unrecognised assignment in sendRequestMessage: %s", pos(v), txt)
			}
		case *ast.ExprStmt:
			if c, ok := isCall(v.X, "delete"); ok && src(c) == "delete(mp.resCh, reqMsg.ID)" {
				e.put("KDelete")
			} else if isLoggerCall(v) {
				// logging only
			} else {
				fail("%s: unrecognised statement in sendRequestMessage: %s", pos(v), src(v))
			}
		case *ast.IfStmt:
			// if err := mp.send(...reqMsg); err != nil { ... }
			if v.Init == nil || v.Else != nil || src(v.Cond) != "err != nil" || !strings.HasPrefix(src(v.Init), "err := mp.send(") ||
				!strings.HasSuffix(src(v.Init), ", reqMsg)") {
				fail("%s: unrecognised if in sendRequestMessage: %s", pos(v), src(v))
			}
			e.put("KSend")
			e.put("KOnSendErr")
			e.sendStmts(v.Body.List, false)
			e.put("KEndOnSendErr")
		case *ast.ReturnStmt:
			e.put(retTok(v))
		case *ast.SelectStmt:
			if inTimeout {
				// drain: select { case resMsg := <-ch: return resMsg, nil; default: }
				if len(v.Body.List) != 2 {
					fail("%s: unrecognised nested select", pos(v))
				}
				c0 := v.Body.List[0].(*ast.CommClause)
				c1 := v.Body.List[1].(*ast.CommClause)
				if c0.Comm == nil || src(c0.Comm) != "resMsg := <-ch" || len(c0.Body) != 1 || src(c0.Body[0]) != "return resMsg, nil" ||
					c1.Comm != nil || len(c1.Body) != 0 {
					fail("%s: nested select is not the drain idiom: %s", pos(v), src(v))
				}
				e.put("KDrain")
				continue
			}
			e.put("KSelect")
			for _, cc := range v.Body.List {
				cl := cc.(*ast.CommClause)
				if cl.Comm == nil {
					fail("%s: select in sendRequestMessage has a default clause", pos(cl))
				}
				switch src(cl.Comm) {
				case "resMsg := <-ch":
					e.put("KCaseRecv")
					e.sendStmts(cl.Body, false)
				case "<-time.After(mp.timeout)":
					e.put("KCaseTimeout")
					e.sendStmts(cl.Body, true)
				case "<-ctx.Done()":
					e.put("KCaseCtx")
					e.sendStmts(cl.Body, false)
				default:
					fail("%s: unrecognised select case %q", pos(cl), src(cl.Comm))
				}
			}
			e.put("KEndSelect")
		default:
			fail("%s: unrecognised statement in sendRequestMessage: %s", pos(s), src(s))
		}
	}
}

// onRespLocked translates onResponse from the Lock on.
func (e *emitter) onRespLocked(list []ast.Stmt) {
	list = expand(list, 0)
	for _, s := range list {
		if t := lockStmt(s); t != "" {
			e.put(t)
			continue
		}
		v, ok := s.(*ast.IfStmt)
		if !ok || v.Init == nil || src(v.Init) != "ch, ok := mp.resCh[newMsg.ID]" || src(v.Cond) != "ok" {
			fail("%s: unrecognised statement under resMu in onResponse: %s", pos(s), src(s))
		}
		e.put("KLookup")
		sends := 0
		for _, b := range expand(v.Body.List, 0) {
			switch w := b.(type) {
			case *ast.SendStmt:
				if src(w.Chan) != "ch" {
					fail("%s: send on an unexpected channel", pos(w))
				}
				e.put("KSendChanBlocking")
				sends++
			case *ast.SelectStmt:
				if len(w.Body.List) != 2 {
					fail("%s: unrecognised select under resMu", pos(w))
				}
				c0 := w.Body.List[0].(*ast.CommClause)
				c1 := w.Body.List[1].(*ast.CommClause)
				snd, ok := c0.Comm.(*ast.SendStmt)
				if !ok || src(snd.Chan) != "ch" || len(c0.Body) != 0 || c1.Comm != nil {
					fail("%s: select under resMu is not the non-blocking send idiom: %s", pos(w), src(w))
				}
				for _, d := range c1.Body {
					if !isLoggerCall(d) {
						fail("%s: default clause does more than logging: %s", pos(d), src(d))
					}
				}
				e.put("KSendChanNonBlocking")
				sends++
			default:
				// pure local computation of the Response value (no channel op, no resMu/resCh, no goroutine)
				if hasChanOp(b) || mentions(b, "resMu", "resCh") {
					fail("%s: unexpected blocking statement under resMu: %s", pos(b), src(b))
				}
				switch b.(type) {
				case *ast.DeclStmt, *ast.IfStmt, *ast.AssignStmt:
				default:
					if !isLoggerCall(b) {
						fail("%s: unrecognised statement under resMu: %s", pos(b), src(b))
					}
				}
			}
		}
		if sends != 1 {
			fail("%s: expected exactly one channel send under resMu, found %d", pos(v), sends)
		}
		blk, ok := v.Else.(*ast.BlockStmt)
		if !ok {
			fail("%s: missing else branch of the lookup", pos(v))
		}
		for _, d := range blk.List {
			if !isLoggerCall(d) {
				fail("%s: unknown-ID branch does more than logging: %s", pos(d), src(d))
			}
		}
		e.put("KWarnUnknown")
	}
}

// preludeReturns lists the early returns of a statement list: each must be a top-level `if c { ...; return }` without else.
func preludeReturns(fn string, list []ast.Stmt) []string {
	var out []string
	for i, st := range list {
		ifs, isIf := st.(*ast.IfStmt)
		if isIf && ifs.Else == nil && len(ifs.Body.List) > 0 {
			if _, ok := ifs.Body.List[len(ifs.Body.List)-1].(*ast.ReturnStmt); ok {
				// no other return nested in the body
				n := 0
				ast.Inspect(ifs.Body, func(x ast.Node) bool {
					if _, ok := x.(*ast.ReturnStmt); ok {
						n++
					}
					return true
				})
				if n != 1 {
					fail("%s: %s: nested returns in an early-return block", pos(st), fn)
				}
				prev := ""
				if i > 0 {
					if _, ok := list[i-1].(*ast.AssignStmt); ok && ifs.Init == nil {
						prev = src(list[i-1])
					}
				}
				c := src(ifs.Cond)
				if ifs.Init != nil {
					c = src(ifs.Init) + "; " + c
				}
				out = append(out, prev+" | "+c)
				continue
			}
		}
		ast.Inspect(st, func(x ast.Node) bool {
			if _, ok := x.(*ast.FuncLit); ok {
				return false
			}
			if r, ok := x.(*ast.ReturnStmt); ok {
				fail("%s: %s: a return outside the recognised early-return shape before the message is handed on: %s", pos(r), fn, src(st))
			}
			return true
		})
	}
	return out
}

func coqStrings(xs []string) string {
	var q []string
	for _, x := range xs {
		q = append(q, "\""+strings.ReplaceAll(x, "\"", "\"\"")+"\"")
	}
	return "[" + strings.Join(q, ";\n   ") + "]"
}

func main() {
	repo := flag.String("repo", "/repo", "repository root")
	out := flag.String("out", "", "output .v file")
	flag.Parse()
	dir := filepath.Join(*repo, "pkg/p2p")
	ents, err := os.ReadDir(dir)
	if err != nil {
		fail("%v", err)
	}
	funcs := map[string]*ast.FuncDecl{}
	users := map[string]bool{}
	allFuncs := map[string]*ast.FuncDecl{}
	var timeoutWriters []string
	callers := map[string]map[string]bool{} // method name -> functions that contain a call x.<name>(...)
	consts := map[string]string{}
	for _, en := range ents {
		n := en.Name()
		if !strings.HasSuffix(n, ".go") || strings.HasSuffix(n, "_test.go") || strings.HasSuffix(n, "_verif.go") {
			continue
		}
		f, err := parser.ParseFile(fset, filepath.Join(dir, n), nil, 0)
		if err != nil {
			fail("%v", err)
		}
		for _, d := range f.Decls {
			switch v := d.(type) {
			case *ast.FuncDecl:
				if v.Body != nil && mentions(v.Body, "resMu", "resCh") {
					users[v.Name.Name] = true
				}
				allFuncs[v.Name.Name] = v
				if v.Body != nil {
					ast.Inspect(v.Body, func(x ast.Node) bool {
						if as, ok := x.(*ast.AssignStmt); ok {
							for _, l := range as.Lhs {
								if sel, ok := l.(*ast.SelectorExpr); ok && sel.Sel.Name == "timeout" {
									timeoutWriters = append(timeoutWriters, n+":"+v.Name.Name+": "+src(as))
								}
							}
						}
						return true
					})
				}
				if v.Recv != nil && len(v.Recv.List) == 1 && strings.TrimPrefix(src(v.Recv.List[0].Type), "*") == "MessageProtocol" {
					mpMethods[v.Name.Name] = v
				}
				if v.Body != nil {
					caller := v.Name.Name
					ast.Inspect(v.Body, func(x ast.Node) bool {
						if c, ok := x.(*ast.CallExpr); ok {
							if sel, ok := c.Fun.(*ast.SelectorExpr); ok {
								if callers[sel.Sel.Name] == nil {
									callers[sel.Sel.Name] = map[string]bool{}
								}
								callers[sel.Sel.Name][caller] = true
							}
						}
						return true
					})
				}
				if n == "message_protocol.go" {
					funcs[v.Name.Name] = v
				}
			case *ast.GenDecl:
				if v.Tok == token.CONST {
					for _, sp := range v.Specs {
						vs := sp.(*ast.ValueSpec)
						for i, id := range vs.Names {
							if i < len(vs.Values) {
								consts[id.Name] = src(vs.Values[i])
							}
						}
					}
				}
			}
		}
	}
	// resMu / resCh may be used by onResponse, sendRequestMessage and by helper methods of MessageProtocol that are called only
	// from these (transitively): such helpers are inlined below. Anybody else using the shared table is outside the model.
	allowed := map[string]bool{"onResponse": true, "sendRequestMessage": true}
	for changed := true; changed; {
		changed = false
		for u := range users {
			if allowed[u] || mpMethods[u] == nil || len(callers[u]) == 0 {
				continue
			}
			ok := true
			for c := range callers[u] {
				if !allowed[c] {
					ok = false
				}
			}
			if ok {
				allowed[u] = true
				changed = true
			}
		}
	}
	var us []string
	for u := range users {
		if !allowed[u] {
			us = append(us, u)
		}
	}
	sort.Strings(us)
	if len(us) != 0 {
		fail("resMu/resCh are used by functions outside the modelled ones (and their private helpers): %v", us)
	}

	// constants
	retries, err := strconv.Atoi(consts["messageMaxRetries"])
	if err != nil || retries < 0 {
		fail("messageMaxRetries is not a non-negative integer literal: %q", consts["messageMaxRetries"])
	}
	var timeoutMs int
	switch t := consts["messageResponseTimeout"]; {
	case strings.HasSuffix(t, " * time.Second"):
		n, err := strconv.Atoi(strings.TrimSuffix(t, " * time.Second"))
		if err != nil {
			fail("unrecognised messageResponseTimeout %q", t)
		}
		timeoutMs = n * 1000
	case strings.HasSuffix(t, " * time.Millisecond"):
		n, err := strconv.Atoi(strings.TrimSuffix(t, " * time.Millisecond"))
		if err != nil {
			fail("unrecognised messageResponseTimeout %q", t)
		}
		timeoutMs = n
	default:
		fail("unrecognised messageResponseTimeout %q", t)
	}
	// newMessageProtocol must initialise timeout from the constant
	if np := funcs["newMessageProtocol"]; np == nil || !strings.Contains(src(np.Body), "timeout: messageResponseTimeout") {
		fail("newMessageProtocol does not initialise timeout from messageResponseTimeout")
	}

	// request(): retry loop
	rq := funcs["request"]
	if rq == nil {
		fail("request not found")
	}
	okLoop := false
	ast.Inspect(rq.Body, func(n ast.Node) bool {
		fs, ok := n.(*ast.ForStmt)
		if !ok {
			return true
		}
		if fs.Init == nil || fs.Cond == nil || fs.Post == nil || src(fs.Init) != "i := 0" || src(fs.Cond) != "i <= messageMaxRetries" || src(fs.Post) != "i++" {
			fail("%s: retry loop header changed: for %s; %s; %s", pos(fs), src(fs.Init), src(fs.Cond), src(fs.Post))
		}
		body := src(fs.Body)
		if !strings.Contains(body, "res, err = mp.sendRequestMessage(ctx, id, procedure, data)") ||
			!strings.Contains(body, "if err != nil { if errors.Is(err, errTimeout) { continue } return nil, err } return res, nil") {
			fail("%s: retry loop body changed: %s", pos(fs), body)
		}
		okLoop = true
		return false
	})
	if !okLoop {
		fail("request(): retry loop not found")
	}

	// sendRequestMessage
	sr := funcs["sendRequestMessage"]
	if sr == nil {
		fail("sendRequestMessage not found")
	}
	var se emitter
	se.sendStmts(sr.Body.List, false)

	// onResponse: prelude must not touch the shared state, then the locked part
	or := funcs["onResponse"]
	if or == nil {
		fail("onResponse not found")
	}
	lockAt := -1
	for i, s := range or.Body.List {
		if lockStmt(s) == "KLock" {
			lockAt = i
			break
		}
		if touchesShared(s, 0) {
			fail("%s: onResponse touches channels/resMu/resCh before taking the lock: %s", pos(s), src(s))
		}
	}
	if lockAt < 0 {
		fail("onResponse: mp.resMu.Lock() not found at top level")
	}
	var oe emitter
	oe.onRespLocked(or.Body.List[lockAt:])

	// The part of onResponse before the lock (and all of onRequest up to the handler call) can DROP a message: every early return
	// is listed, in order, as "<statement before the if> | <condition>"; a return anywhere else in that part fails closed.
	respPrelude := preludeReturns("onResponse", or.Body.List[:lockAt])
	oq := funcs["onRequest"]
	if oq == nil {
		fail("onRequest not found")
	}
	handlerAt := -1
	for i, st := range oq.Body.List {
		if strings.HasPrefix(src(st), "handler(w, newMsg)") {
			handlerAt = i
		}
	}
	if handlerAt < 0 {
		fail("onRequest: the handler call `handler(w, newMsg)` was not found at top level")
	}
	reqPrelude := preludeReturns("onRequest", oq.Body.List[:handlerAt])

	// Exact statement lists of the small functions around the skeleton (the public entry points, the retry loop with its post-loop
	// return, the responder side, the message constructors with the fresh ID, the constructor with the timeout) and of the part of
	// onResponse under resMu: any change there breaks the obligation (these bodies are short and rarely touched).
	type pinned struct {
		name  string
		stmts []string
	}
	var pins []pinned
	for _, fn := range []string{"RequestFrom", "Broadcast", "request", "respond", "newMessageProtocol"} {
		f := funcs[fn]
		if f == nil || f.Body == nil {
			fail("%s not found in message_protocol.go", fn)
		}
		var st []string
		for _, x := range f.Body.List {
			st = append(st, src(x))
		}
		pins = append(pins, pinned{fn, st})
	}
	for _, fn := range []string{"newRequestMessage", "newResponseMessage"} {
		f := allFuncs[fn]
		if f == nil || f.Body == nil {
			fail("%s not found", fn)
		}
		var st []string
		for _, x := range f.Body.List {
			st = append(st, src(x))
		}
		pins = append(pins, pinned{fn, st})
	}
	{
		var st []string
		for _, x := range expand(or.Body.List[lockAt:], 0) {
			st = append(st, src(x))
		}
		pins = append(pins, pinned{"onResponse/locked", st})
	}
	sort.Strings(timeoutWriters)
	// the statements of the part of onResponse before the lock that are not early returns (reads, decoding, the rate limiter step)
	{
		var st []string
		for _, x := range or.Body.List[:lockAt] {
			if ifs, ok := x.(*ast.IfStmt); ok && ifs.Else == nil && len(ifs.Body.List) > 0 {
				if _, ok := ifs.Body.List[len(ifs.Body.List)-1].(*ast.ReturnStmt); ok {
					continue
				}
			}
			st = append(st, src(x))
		}
		pins = append(pins, pinned{"onResponse/before-lock (without the early returns)", st})
	}

	var b strings.Builder
	b.WriteString("(* GENERATED by translate/reqresp from pkg/p2p/message_protocol.go - do not edit. *)\n")
	b.WriteString("From Coq Require Import List NArith String.\nFrom LE Require Import P2P.ReqResp.\nImport ListNotations.\nLocal Open Scope N_scope.\n\n")
	b.WriteString("Definition gen_send_skel : list tok :=\n  [" + strings.Join(se.toks, "; ") + "].\n\n")
	b.WriteString("Definition gen_onresp_skel : list tok :=\n  [" + strings.Join(oe.toks, "; ") + "].\n\n")
	b.WriteString(fmt.Sprintf("Definition gen_max_retries : N := %d.\nDefinition gen_timeout_ms : N := %d.\n\n", retries, timeoutMs))
	b.WriteString("Definition gen_onresp_drops : list String.string :=\n  " + coqStrings(respPrelude) + "%string.\n\n")
	b.WriteString("Definition gen_onreq_drops : list String.string :=\n  " + coqStrings(reqPrelude) + "%string.\n\n")
	b.WriteString("Definition gen_pinned_bodies : list (String.string * list String.string) :=\n  [")
	for i, pn := range pins {
		if i > 0 {
			b.WriteString(";\n   ")
		}
		b.WriteString("(\"" + pn.name + "\"%string,\n    " + coqStrings(pn.stmts) + "%string)")
	}
	b.WriteString("].\n\n")
	b.WriteString("(* functions (other than the constructor's composite literal) that assign a .timeout field in the package *)\n")
	b.WriteString("Definition gen_timeout_writers : list String.string :=\n  " + coqStrings(timeoutWriters) + "%string.\n")
	if *out == "" {
		fmt.Print(b.String())
		return
	}
	if old, err := os.ReadFile(*out); err == nil && string(old) == b.String() {
		return
	}
	if err := os.WriteFile(*out, []byte(b.String()), 0o644); err != nil {
		fail("%v", err)
	}
}
