// translate/schemas: parses every generated *_codec.go under the repository and emits, per struct, the three
// field sequences actually present in the generated Encode / DecodeFromReader / DecodeStrictFromReader bodies
// as Coq terms (coq/Gen/Schemas.v), with obligations  enc = dec = strict  and  wf_env = true  (vm_compute).
// Deliberately dumb pattern extraction over go/ast; fails closed (non-zero exit) on any unrecognised shape.
//
// usage: go run main.go -repo /repo -out /verif/coq/Gen/Schemas.v [-json schemas.json]
package main

import (
	"bytes"
	"encoding/json"
	"flag"
	"fmt"
	"go/ast"
	"go/parser"
	"go/printer"
	"go/token"
	"os"
	"path/filepath"
	"sort"
	"strconv"
	"strings"
)

const modulePath = "github.com/LiskHQ/lisk-engine/"

type field struct {
	Fn   int    `json:"fn"`
	Ty   string `json:"ty"`             // Coq constructor: TBool ... TMsg / TMsgs
	Ref  string `json:"ref,omitempty"`  // qualified struct name for TMsg / TMsgs
	Name string `json:"name"`           // Go field name
	Conv string `json:"conv,omitempty"` // Hex / Lisk32 array conversion helper
}

type structSchema struct {
	Name   string  `json:"name"` // "<dir>.<Type>"
	Dir    string  `json:"dir"`
	Pkg    string  `json:"pkg"`
	Type   string  `json:"type"`
	File   string  `json:"file"`
	Enc    []field `json:"enc"`
	Dec    []field `json:"dec"`
	Strict []field `json:"strict"`
}

func die(format string, a ...interface{}) {
	fmt.Fprintf(os.Stderr, "translate/schemas: "+format+"\n", a...)
	os.Exit(2)
}

var writeTy = map[string]string{
	"WriteBool": "TBool", "WriteUInt32": "TU32", "WriteUInt": "TU64", "WriteInt32": "TI32", "WriteInt": "TI64",
	"WriteString": "TStr", "WriteBytes": "TBytes", "WriteBytesArray": "TBytesArr", "WriteStrings": "TStrs",
	"WriteBools": "TBools", "WriteUInt32s": "TU32s", "WriteUInts": "TU64s",
}
var readTy = map[string]string{
	"ReadBool": "TBool", "ReadUInt32": "TU32", "ReadUInt": "TU64", "ReadInt32": "TI32", "ReadInt": "TI64",
	"ReadString": "TStr", "ReadBytes": "TBytes", "ReadBytesArray": "TBytesArr", "ReadStrings": "TStrs",
	"ReadBools": "TBools", "ReadUInt32s": "TU32s", "ReadUInts": "TU64s",
}
var readHasStrict = map[string]bool{"ReadBool": true, "ReadUInt32": true, "ReadUInt": true, "ReadInt32": true, "ReadInt": true,
	"ReadString": true, "ReadBytes": true}

type fileCtx struct {
	fset    *token.FileSet
	path    string
	dir     string            // relative dir
	imports map[string]string // local name -> relative dir
	// struct field types of the package (source text)
	fieldTypes map[string]map[string]string
}

func (c *fileCtx) pos(n ast.Node) string { return c.fset.Position(n.Pos()).String() }

func src(fset *token.FileSet, n ast.Node) string {
	var b bytes.Buffer
	if err := printer.Fprint(&b, fset, n); err != nil {
		die("print: %v", err)
	}
	return b.String()
}

// resolve a Go type expression naming a struct (T or pkg.T) to "<dir>.<T>"
func (c *fileCtx) resolve(e ast.Expr) string {
	switch t := e.(type) {
	case *ast.Ident:
		return c.dir + "." + t.Name
	case *ast.SelectorExpr:
		x, ok := t.X.(*ast.Ident)
		if !ok {
			die("%s: unsupported selector type", c.pos(e))
		}
		d, ok := c.imports[x.Name]
		if !ok {
			die("%s: unknown package %s", c.pos(e), x.Name)
		}
		return d + "." + t.Sel.Name
	}
	die("%s: unsupported type expression %s", c.pos(e), src(c.fset, e))
	return ""
}

func intLit(c *fileCtx, e ast.Expr) int {
	l, ok := e.(*ast.BasicLit)
	if !ok || l.Kind != token.INT {
		die("%s: field number is not an integer literal", c.pos(e))
	}
	n, err := strconv.Atoi(l.Value)
	if err != nil {
		die("%s: %v", c.pos(e), err)
	}
	return n
}

// e.F
func recvField(c *fileCtx, e ast.Expr) string {
	s, ok := e.(*ast.SelectorExpr)
	if !ok {
		die("%s: expected e.<Field>, got %s", c.pos(e), src(c.fset, e))
	}
	x, ok := s.X.(*ast.Ident)
	if !ok || x.Name != "e" {
		die("%s: expected e.<Field>, got %s", c.pos(e), src(c.fset, e))
	}
	return s.Sel.Name
}

// writer.WriteX(args...) -> (X, args)
func methodCall(c *fileCtx, e ast.Expr, recv string) (string, []ast.Expr) {
	call, ok := e.(*ast.CallExpr)
	if !ok {
		die("%s: expected a call, got %s", c.pos(e), src(c.fset, e))
	}
	sel, ok := call.Fun.(*ast.SelectorExpr)
	if !ok {
		die("%s: expected %s.<Method>(...)", c.pos(e), recv)
	}
	x, ok := sel.X.(*ast.Ident)
	if !ok || x.Name != recv {
		die("%s: expected %s.<Method>(...), got %s", c.pos(e), recv, src(c.fset, e))
	}
	return sel.Sel.Name, call.Args
}

// the struct type behind a field type string like "*T", "[]*T", "*pkg.T"
func (c *fileCtx) fieldStruct(typ, fname string, many bool) string {
	ft, ok := c.fieldTypes[typ][fname]
	if !ok {
		die("%s: no declaration found for field %s.%s", c.path, typ, fname)
	}
	want := "*"
	if many {
		want = "[]*"
	}
	if !strings.HasPrefix(ft, want) {
		die("%s: field %s.%s has type %s, expected prefix %s", c.path, typ, fname, ft, want)
	}
	expr, err := parser.ParseExpr(strings.TrimPrefix(ft, want))
	if err != nil {
		die("%s: cannot parse type %s", c.path, ft)
	}
	return c.resolve(expr)
}

func isNotNil(c *fileCtx, cond ast.Expr, want string) bool {
	b, ok := cond.(*ast.BinaryExpr)
	if !ok || b.Op != token.NEQ {
		return false
	}
	y, ok := b.Y.(*ast.Ident)
	return ok && y.Name == "nil" && src(c.fset, b.X) == want
}

func parseEncode(c *fileCtx, typ string, fd *ast.FuncDecl) []field {
	stmts := fd.Body.List
	if len(stmts) < 2 || src(c.fset, stmts[0]) != "writer := codec.NewWriter()" || src(c.fset, stmts[len(stmts)-1]) != "return writer.Result()" {
		die("%s: Encode of %s does not have the template frame", c.pos(fd), typ)
	}
	var out []field
	for _, st := range stmts[1 : len(stmts)-1] {
		switch s := st.(type) {
		case *ast.ExprStmt:
			m, args := methodCall(c, s.X, "writer")
			ty, ok := writeTy[m]
			if !ok || len(args) != 2 {
				die("%s: unrecognised writer call %s", c.pos(st), src(c.fset, st))
			}
			f := field{Fn: intLit(c, args[0]), Ty: ty}
			if call, ok := args[1].(*ast.CallExpr); ok {
				fn := src(c.fset, call.Fun)
				if m != "WriteBytesArray" || len(call.Args) != 1 || (fn != "codec.HexArrayToBytesArray" && fn != "codec.Lisk32ArrayToBytesArray") {
					die("%s: unrecognised conversion %s", c.pos(st), src(c.fset, st))
				}
				f.Conv = strings.TrimSuffix(strings.TrimPrefix(fn, "codec."), "ArrayToBytesArray")
				f.Name = recvField(c, call.Args[0])
			} else {
				f.Name = recvField(c, args[1])
			}
			out = append(out, f)
		case *ast.IfStmt: // if e.F != nil { writer.WriteEncodable(n, e.F) }
			if s.Init != nil || s.Else != nil || len(s.Body.List) != 1 {
				die("%s: unrecognised if in Encode", c.pos(st))
			}
			es, ok := s.Body.List[0].(*ast.ExprStmt)
			if !ok {
				die("%s: unrecognised if body in Encode", c.pos(st))
			}
			m, args := methodCall(c, es.X, "writer")
			if m != "WriteEncodable" || len(args) != 2 {
				die("%s: unrecognised if body in Encode", c.pos(st))
			}
			name := recvField(c, args[1])
			if !isNotNil(c, s.Cond, "e."+name) {
				die("%s: nil guard does not match the written field", c.pos(st))
			}
			out = append(out, field{Fn: intLit(c, args[0]), Ty: "TMsg", Name: name, Ref: c.fieldStruct(typ, name, false)})
		case *ast.BlockStmt: // { for _, val := range e.F { if val != nil { writer.WriteEncodable(n, val) } } }
			if len(s.List) != 1 {
				die("%s: unrecognised block in Encode", c.pos(st))
			}
			rs, ok := s.List[0].(*ast.RangeStmt)
			if !ok || src(c.fset, rs.Key) != "_" || src(c.fset, rs.Value) != "val" || rs.Tok != token.DEFINE || len(rs.Body.List) != 1 {
				die("%s: unrecognised loop in Encode", c.pos(st))
			}
			name := recvField(c, rs.X)
			is, ok := rs.Body.List[0].(*ast.IfStmt)
			if !ok || is.Init != nil || is.Else != nil || len(is.Body.List) != 1 || !isNotNil(c, is.Cond, "val") {
				die("%s: unrecognised loop body in Encode", c.pos(st))
			}
			es, ok := is.Body.List[0].(*ast.ExprStmt)
			if !ok {
				die("%s: unrecognised loop body in Encode", c.pos(st))
			}
			m, args := methodCall(c, es.X, "writer")
			if m != "WriteEncodable" || len(args) != 2 || src(c.fset, args[1]) != "val" {
				die("%s: unrecognised loop body in Encode", c.pos(st))
			}
			out = append(out, field{Fn: intLit(c, args[0]), Ty: "TMsgs", Name: name, Ref: c.fieldStruct(typ, name, true)})
		default:
			die("%s: unrecognised statement in Encode: %s", c.pos(st), src(c.fset, st))
		}
	}
	return out
}

// func() codec.DecodableReader { return new(T) }
func creatorType(c *fileCtx, e ast.Expr) string {
	fl, ok := e.(*ast.FuncLit)
	if !ok || len(fl.Body.List) != 1 || src(c.fset, fl.Type) != "func() codec.DecodableReader" {
		die("%s: unrecognised creator %s", c.pos(e), src(c.fset, e))
	}
	ret, ok := fl.Body.List[0].(*ast.ReturnStmt)
	if !ok || len(ret.Results) != 1 {
		die("%s: unrecognised creator body", c.pos(e))
	}
	call, ok := ret.Results[0].(*ast.CallExpr)
	if !ok || src(c.fset, call.Fun) != "new" || len(call.Args) != 1 {
		die("%s: unrecognised creator body", c.pos(e))
	}
	return c.resolve(call.Args[0])
}

const errRet = "if err != nil {\n\treturn err\n}"

func parseDecode(c *fileCtx, typ string, fd *ast.FuncDecl, strict bool) []field {
	stmts := fd.Body.List
	if len(stmts) < 1 || src(c.fset, stmts[len(stmts)-1]) != "return nil" {
		die("%s: decoder of %s does not end with return nil", c.pos(fd), typ)
	}
	var out []field
	for _, st := range stmts[:len(stmts)-1] {
		b, ok := st.(*ast.BlockStmt)
		if !ok || len(b.List) < 3 {
			die("%s: unrecognised statement in decoder: %s", c.pos(st), src(c.fset, st))
		}
		as, ok := b.List[0].(*ast.AssignStmt)
		if !ok || as.Tok != token.DEFINE || len(as.Lhs) != 2 || len(as.Rhs) != 1 || src(c.fset, as.Lhs[1]) != "err" {
			die("%s: unrecognised read in decoder", c.pos(st))
		}
		if src(c.fset, b.List[1]) != errRet {
			die("%s: error of the read is not returned: %s", c.pos(st), src(c.fset, b.List[1]))
		}
		valName := src(c.fset, as.Lhs[0])
		m, args := methodCall(c, as.Rhs[0], "reader")
		f := field{}
		checkStrict := func(e ast.Expr) {
			want := "false"
			if strict {
				want = "true"
			}
			if src(c.fset, e) != want {
				die("%s: strict flag is %s, expected %s", c.pos(e), src(c.fset, e), want)
			}
		}
		switch {
		case m == "ReadDecodable":
			if len(args) != 3 || valName != "val" || len(b.List) != 3 {
				die("%s: unrecognised ReadDecodable", c.pos(st))
			}
			checkStrict(args[2])
			f = field{Fn: intLit(c, args[0]), Ty: "TMsg", Ref: creatorType(c, args[1])}
			// e.F = val.(*T)
			fin, ok := b.List[2].(*ast.AssignStmt)
			if !ok || fin.Tok != token.ASSIGN || len(fin.Lhs) != 1 || len(fin.Rhs) != 1 {
				die("%s: unrecognised assignment", c.pos(st))
			}
			ta, ok := fin.Rhs[0].(*ast.TypeAssertExpr)
			if !ok || src(c.fset, ta.X) != "val" {
				die("%s: unrecognised assignment", c.pos(st))
			}
			star, ok := ta.Type.(*ast.StarExpr)
			if !ok || c.resolve(star.X) != f.Ref {
				die("%s: asserted type differs from the created type", c.pos(st))
			}
			f.Name = recvField(c, fin.Lhs[0])
		case m == "ReadDecodables":
			if len(args) != 2 || valName != "vals" || len(b.List) != 5 {
				die("%s: unrecognised ReadDecodables", c.pos(st))
			}
			f = field{Fn: intLit(c, args[0]), Ty: "TMsgs", Ref: creatorType(c, args[1])}
			// r := make([]*T, len(vals)); for i, v := range vals { r[i] = v.(*T) }; e.F = r
			mk := src(c.fset, b.List[2])
			loop := src(c.fset, b.List[3])
			if !strings.HasPrefix(mk, "r := make([]*") || !strings.HasSuffix(mk, ", len(vals))") {
				die("%s: unrecognised ReadDecodables conversion: %s", c.pos(st), mk)
			}
			tname := strings.TrimSuffix(strings.TrimPrefix(mk, "r := make([]*"), ", len(vals))")
			texpr, err := parser.ParseExpr(tname)
			if err != nil || c.resolve(texpr) != f.Ref {
				die("%s: slice element type differs from the created type", c.pos(st))
			}
			if loop != "for i, v := range vals {\n\tr[i] = v.(*"+tname+")\n}" {
				die("%s: unrecognised ReadDecodables loop: %s", c.pos(st), loop)
			}
			fin, ok := b.List[4].(*ast.AssignStmt)
			if !ok || fin.Tok != token.ASSIGN || len(fin.Lhs) != 1 || src(c.fset, fin.Rhs[0]) != "r" {
				die("%s: unrecognised assignment", c.pos(st))
			}
			f.Name = recvField(c, fin.Lhs[0])
		default:
			ty, ok := readTy[m]
			if !ok || valName != "val" || len(b.List) != 3 {
				die("%s: unrecognised reader call %s", c.pos(st), src(c.fset, as))
			}
			if readHasStrict[m] {
				if len(args) != 2 {
					die("%s: wrong arity for %s", c.pos(st), m)
				}
				checkStrict(args[1])
			} else if len(args) != 1 {
				die("%s: wrong arity for %s", c.pos(st), m)
			}
			f = field{Fn: intLit(c, args[0]), Ty: ty}
			fin, ok := b.List[2].(*ast.AssignStmt)
			if !ok || fin.Tok != token.ASSIGN || len(fin.Lhs) != 1 || len(fin.Rhs) != 1 {
				die("%s: unrecognised assignment", c.pos(st))
			}
			f.Name = recvField(c, fin.Lhs[0])
			rhs := src(c.fset, fin.Rhs[0])
			switch rhs {
			case "val":
			case "codec.BytesArrayToHexArray(val)":
				f.Conv = "Hex"
			case "codec.BytesArrayToLisk32Array(val)":
				f.Conv = "Lisk32"
			default:
				die("%s: unrecognised assignment %s", c.pos(st), rhs)
			}
			if f.Conv != "" && m != "ReadBytesArray" {
				die("%s: conversion on a non-array read", c.pos(st))
			}
		}
		out = append(out, f)
	}
	return out
}

func wrapperText(typ, which string) string {
	switch which {
	case "Decode":
		return "func (e *" + typ + ") Decode(data []byte) error {\n\treader := codec.NewReader(data)\n\treturn e.DecodeFromReader(reader)\n}"
	case "MustDecode":
		return "func (e *" + typ + ") MustDecode(data []byte) {\n\tif err := e.Decode(data); err != nil {\n\t\tpanic(err)\n\t}\n}"
	case "DecodeStrict":
		return "func (e *" + typ + ") DecodeStrict(data []byte) error {\n\treader := codec.NewReader(data)\n\tif err := e.DecodeStrictFromReader(reader); err != nil {\n\t\treturn err\n\t}\n\tif reader.HasUnreadBytes() {\n\t\treturn codec.ErrUnreadBytes\n\t}\n\treturn nil\n}"
	}
	return ""
}

func loadFieldTypes(dir string) map[string]map[string]string {
	res := map[string]map[string]string{}
	ents, err := os.ReadDir(dir)
	if err != nil {
		die("%v", err)
	}
	for _, e := range ents {
		n := e.Name()
		if e.IsDir() || !strings.HasSuffix(n, ".go") || strings.HasSuffix(n, "_test.go") || strings.HasSuffix(n, "_codec.go") {
			continue
		}
		p := filepath.Join(dir, n)
		b, err := os.ReadFile(p)
		if err != nil {
			die("%v", err)
		}
		fset := token.NewFileSet()
		f, err := parser.ParseFile(fset, p, b, parser.SkipObjectResolution)
		if err != nil {
			die("%v", err)
		}
		ast.Inspect(f, func(nd ast.Node) bool {
			ts, ok := nd.(*ast.TypeSpec)
			if !ok {
				return true
			}
			stt, ok := ts.Type.(*ast.StructType)
			if !ok {
				return true
			}
			m := map[string]string{}
			for _, fl := range stt.Fields.List {
				for _, nm := range fl.Names {
					m[nm.Name] = string(b[fl.Type.Pos()-1 : fl.Type.End()-1])
				}
			}
			if _, dup := res[ts.Name.Name]; !dup {
				res[ts.Name.Name] = m
			}
			return true
		})
	}
	return res
}

func ident(s string) string {
	r := strings.NewReplacer("/", "_", ".", "_", "-", "_")
	return r.Replace(s)
}

func coqSeq(fs []field) string {
	parts := make([]string, len(fs))
	for i, f := range fs {
		t := f.Ty
		if f.Ty == "TMsg" || f.Ty == "TMsgs" {
			t = fmt.Sprintf("%s \"%s\"", f.Ty, f.Ref)
		}
		parts[i] = fmt.Sprintf("(%d, %s)", f.Fn, t)
	}
	return "[" + strings.Join(parts, "; ") + "]"
}

func main() {
	repo := flag.String("repo", "/repo", "repository root")
	out := flag.String("out", "", "output .v file")
	jsonOut := flag.String("json", "", "optional JSON dump of the schemas (for the harness)")
	goReg := flag.String("goreg", "", "optional Go registry file for the correspondence harness")
	flag.Parse()
	if *out == "" {
		die("-out required")
	}
	var files []string
	err := filepath.Walk(*repo, func(p string, info os.FileInfo, err error) error {
		if err != nil {
			return err
		}
		if info.IsDir() && (info.Name() == ".git" || info.Name() == "node_modules") {
			return filepath.SkipDir
		}
		if !info.IsDir() && strings.HasSuffix(p, "_codec.go") {
			files = append(files, p)
		}
		return nil
	})
	if err != nil {
		die("%v", err)
	}
	sort.Strings(files)
	if len(files) == 0 {
		die("no *_codec.go files under %s", *repo)
	}
	var all []structSchema
	ftCache := map[string]map[string]map[string]string{}
	for _, p := range files {
		b, err := os.ReadFile(p)
		if err != nil {
			die("%v", err)
		}
		if !bytes.HasPrefix(b, []byte("// Code generated by github.com/LiskHQ/lisk-engine/pkg/codec/gen; DO NOT EDIT.")) {
			die("%s: not a generated codec file", p)
		}
		fset := token.NewFileSet()
		f, err := parser.ParseFile(fset, p, b, parser.SkipObjectResolution)
		if err != nil {
			die("%v", err)
		}
		rel, _ := filepath.Rel(*repo, filepath.Dir(p))
		c := &fileCtx{fset: fset, path: p, dir: rel, imports: map[string]string{}}
		for _, im := range f.Imports {
			ip := strings.Trim(im.Path.Value, "\"")
			if !strings.HasPrefix(ip, modulePath) {
				continue
			}
			d := strings.TrimPrefix(ip, modulePath)
			name := filepath.Base(d)
			if im.Name != nil {
				name = im.Name.Name
			}
			c.imports[name] = d
		}
		if _, ok := ftCache[rel]; !ok {
			ftCache[rel] = loadFieldTypes(filepath.Dir(p))
		}
		c.fieldTypes = ftCache[rel]
		type methods map[string]*ast.FuncDecl
		byType := map[string]methods{}
		var order []string
		for _, d := range f.Decls {
			fd, ok := d.(*ast.FuncDecl)
			if !ok {
				if gd, ok := d.(*ast.GenDecl); ok && gd.Tok == token.IMPORT {
					continue
				}
				die("%s: unexpected declaration in generated file", fset.Position(d.Pos()))
			}
			if fd.Recv == nil || len(fd.Recv.List) != 1 || len(fd.Recv.List[0].Names) != 1 || fd.Recv.List[0].Names[0].Name != "e" {
				die("%s: unexpected function %s", fset.Position(fd.Pos()), fd.Name.Name)
			}
			st, ok := fd.Recv.List[0].Type.(*ast.StarExpr)
			if !ok {
				die("%s: unexpected receiver", fset.Position(fd.Pos()))
			}
			tn := st.X.(*ast.Ident).Name
			if _, ok := byType[tn]; !ok {
				byType[tn] = methods{}
				order = append(order, tn)
			}
			if _, dup := byType[tn][fd.Name.Name]; dup {
				die("%s: duplicate method %s.%s", p, tn, fd.Name.Name)
			}
			byType[tn][fd.Name.Name] = fd
		}
		for _, tn := range order {
			ms := byType[tn]
			for _, want := range []string{"Encode", "Decode", "MustDecode", "DecodeStrict", "DecodeFromReader", "DecodeStrictFromReader"} {
				if ms[want] == nil {
					die("%s: %s lacks method %s", p, tn, want)
				}
			}
			if len(ms) != 6 {
				die("%s: %s has unexpected extra methods", p, tn)
			}
			for _, w := range []string{"Decode", "MustDecode", "DecodeStrict"} {
				if got := src(fset, ms[w]); got != wrapperText(tn, w) {
					die("%s: %s.%s differs from the template:\n%s", p, tn, w, got)
				}
			}
			if sig := src(fset, ms["Encode"].Type); sig != "func() []byte" {
				die("%s: %s.Encode signature %s", p, tn, sig)
			}
			for _, w := range []string{"DecodeFromReader", "DecodeStrictFromReader"} {
				if sig := src(fset, ms[w].Type); sig != "func(reader *codec.Reader) error" {
					die("%s: %s.%s signature %s", p, tn, w, sig)
				}
			}
			s := structSchema{Name: rel + "." + tn, Dir: rel, Pkg: f.Name.Name, Type: tn, File: strings.TrimPrefix(p, *repo+"/")}
			s.Enc = parseEncode(c, tn, ms["Encode"])
			s.Dec = parseDecode(c, tn, ms["DecodeFromReader"], false)
			s.Strict = parseDecode(c, tn, ms["DecodeStrictFromReader"], true)
			// Go field names and conversions must line up position by position (types and numbers are Coq obligations)
			if len(s.Enc) != len(s.Dec) || len(s.Enc) != len(s.Strict) {
				die("%s: %s: Encode/Decode/DecodeStrict have different numbers of fields", p, tn)
			}
			for i := range s.Enc {
				if s.Enc[i].Name != s.Dec[i].Name || s.Enc[i].Name != s.Strict[i].Name || s.Enc[i].Conv != s.Dec[i].Conv || s.Enc[i].Conv != s.Strict[i].Conv {
					die("%s: %s: field %d is %s in Encode, %s in Decode, %s in DecodeStrict", p, tn, i, s.Enc[i].Name, s.Dec[i].Name, s.Strict[i].Name)
				}
			}
			all = append(all, s)
		}
	}
	sort.Slice(all, func(i, j int) bool { return all[i].Name < all[j].Name })
	for i := 1; i < len(all); i++ {
		if all[i].Name == all[i-1].Name {
			die("duplicate struct name %s", all[i].Name)
		}
	}

	var w bytes.Buffer
	fmt.Fprintf(&w, "(* GENERATED by translate/schemas from the *_codec.go files of the repository — do not edit.\n   %d files, %d structs. *)\n", len(files), len(all))
	w.WriteString("From Coq Require Import List NArith Bool String.\nFrom LE Require Import Codec.Schema.\nImport ListNotations.\nLocal Open Scope N_scope.\nLocal Open Scope string_scope.\n\n")
	for _, s := range all {
		id := ident(s.Name)
		fmt.Fprintf(&w, "(* %s : %s *)\n", s.File, s.Type)
		fmt.Fprintf(&w, "Definition enc_%s : schema := %s.\n", id, coqSeq(s.Enc))
		fmt.Fprintf(&w, "Definition dec_%s : schema := %s.\n", id, coqSeq(s.Dec))
		fmt.Fprintf(&w, "Definition strict_%s : schema := %s.\n\n", id, coqSeq(s.Strict))
	}
	w.WriteString("Definition all_seqs : list (string * (schema * schema * schema)) := [\n")
	for i, s := range all {
		id := ident(s.Name)
		sep := ";"
		if i == len(all)-1 {
			sep = ""
		}
		fmt.Fprintf(&w, "  (\"%s\", (enc_%s, dec_%s, strict_%s))%s\n", s.Name, id, id, id, sep)
	}
	w.WriteString("].\n\n(* the environment of the generic theorems: the Encode sequences *)\n")
	w.WriteString("Definition schemas_env : env := map (fun p => (fst p, fst (fst (snd p)))) all_seqs.\n\n")
	w.WriteString("(* obligation: the three generated bodies of every struct agree field by field *)\n")
	w.WriteString("Lemma seqs_agree : forallb (fun p => let '(e, d, s) := snd p in schema_eqb e d && schema_eqb e s) all_seqs = true.\nProof. vm_compute. reflexivity. Qed.\n\n")
	w.WriteString("(* obligation: strictly increasing field numbers in 1 .. 2^28-1, every nested name resolves, nesting depth <= max_depth *)\n")
	w.WriteString("Lemma env_wf : wf_env schemas_env = true.\nProof. vm_compute. reflexivity. Qed.\n\n")
	w.WriteString("(* no int64 field exists in any generated struct *)\n")
	w.WriteString("Lemma no_int64 : forallb (fun p => forallb (fun f => match snd f with TI64 => false | _ => true end) (snd p)) schemas_env = true.\nProof. vm_compute. reflexivity. Qed.\n")
	if old, err := os.ReadFile(*out); err != nil || !bytes.Equal(old, w.Bytes()) {
		if err := os.MkdirAll(filepath.Dir(*out), 0o755); err != nil {
			die("%v", err)
		}
		if err := os.WriteFile(*out, w.Bytes(), 0o644); err != nil {
			die("%v", err)
		}
	}
	if *jsonOut != "" {
		jb, _ := json.MarshalIndent(all, "", " ")
		if old, err := os.ReadFile(*jsonOut); err != nil || !bytes.Equal(old, jb) {
			if err := os.WriteFile(*jsonOut, jb, 0o644); err != nil {
				die("%v", err)
			}
		}
	}
	if *goReg != "" {
		writeIfChanged(*goReg, goRegistry(all))
	}
	fmt.Printf("translate/schemas: %d files, %d structs\n", len(files), len(all))
}

func writeIfChanged(path string, content []byte) {
	if old, err := os.ReadFile(path); err == nil && bytes.Equal(old, content) {
		return
	}
	if err := os.MkdirAll(filepath.Dir(path), 0o755); err != nil {
		die("%v", err)
	}
	if err := os.WriteFile(path, content, 0o644); err != nil {
		die("%v", err)
	}
}

// goRegistry: constructors of every struct reachable from the harness module (exported types directly, unexported
// ones through the package's VerifC08Registry hook), with the Encode field sequence.
func goRegistry(all []structSchema) []byte {
	var w bytes.Buffer
	w.WriteString("// Code generated by translate/schemas; DO NOT EDIT.\n\npackage c08reg\n\nimport (\n\t\"github.com/LiskHQ/lisk-engine/pkg/codec\"\n")
	alias := map[string]string{}
	hooked := map[string]bool{}
	var dirs []string
	reachable := func(s structSchema) bool {
		return s.Pkg != "main" && !strings.Contains("/"+s.Dir+"/", "/internal/")
	}
	for _, s := range all {
		if !reachable(s) {
			continue
		}
		if _, ok := alias[s.Dir]; !ok {
			alias[s.Dir] = fmt.Sprintf("p%d", len(alias))
			dirs = append(dirs, s.Dir)
		}
		if !ast.IsExported(s.Type) {
			hooked[s.Dir] = true
		}
	}
	for _, d := range dirs {
		fmt.Fprintf(&w, "\t%s \"%s%s\"\n", alias[d], modulePath, d)
	}
	w.WriteString(")\n\ntype Field struct {\n\tFn  int\n\tTy  string\n\tRef string\n}\n\ntype Entry struct {\n\tName   string\n\tNew    func() codec.EncodeDecodable\n\tFields []Field\n}\n\n")
	w.WriteString("// structs that cannot be imported from another module (package main / internal): covered by the translator obligations only\nvar Unreachable = []string{\n")
	for _, s := range all {
		if !reachable(s) {
			fmt.Fprintf(&w, "\t%q,\n", s.Name)
		}
	}
	w.WriteString("}\n\nvar hooks = map[string]map[string]func() codec.EncodeDecodable{\n")
	for _, d := range dirs {
		if hooked[d] {
			fmt.Fprintf(&w, "\t%q: %s.VerifC08Registry(),\n", d, alias[d])
		}
	}
	w.WriteString("}\n\nvar Entries = []Entry{\n")
	for _, s := range all {
		if !reachable(s) {
			continue
		}
		var ctor string
		if ast.IsExported(s.Type) {
			ctor = fmt.Sprintf("func() codec.EncodeDecodable { return new(%s.%s) }", alias[s.Dir], s.Type)
		} else {
			ctor = fmt.Sprintf("hooks[%q][%q]", s.Dir, s.Type)
		}
		fmt.Fprintf(&w, "\t{Name: %q, New: %s, Fields: []Field{", s.Name, ctor)
		for i, f := range s.Enc {
			if i > 0 {
				w.WriteString(", ")
			}
			fmt.Fprintf(&w, "{%d, %q, %q}", f.Fn, f.Ty, f.Ref)
		}
		w.WriteString("}},\n")
	}
	w.WriteString("}\n")
	return w.Bytes()
}
