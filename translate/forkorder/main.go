// Fork-choice dispatch translator for C07 (stdlib only). Reads Executer.process in pkg/consensus/execute.go and emits, as a Coq
// list (coq/Gen/ForkOrder.v), the ORDER in which the fork-choice predicates are tested at the top level of the function and,
// for each branch, the consensus actions it calls (processValidated / deleteBlock / syncer.Sync / Validate). Fail-closed: any
// top-level `if` whose condition is not a single forkChoice predicate call (or `err != nil`) aborts.
package main

import (
	"flag"
	"fmt"
	"go/ast"
	"go/parser"
	"go/token"
	"os"
	"path/filepath"
	"strings"
)

var preds = map[string]string{"IsIdenticalBlock": "Identical", "IsValidBlock": "ValidBlock", "IsDoubleForging": "DoubleForging",
	"IsTieBreak": "TieBreak", "IsDifferentChain": "DifferentChain"}
var actions = map[string]string{"processValidated": "ActApply", "deleteBlock": "ActDelete", "Sync": "ActSync", "Validate": "ActValidate"}

func fail(f string, a ...interface{}) {
	fmt.Fprintf(os.Stderr, "forkorder: "+f+"\n", a...)
	os.Exit(2)
}

func main() {
	repo := flag.String("repo", "/repo", "repository root")
	out := flag.String("out", "", "output .v file")
	flag.Parse()
	fset := token.NewFileSet()
	f, err := parser.ParseFile(fset, filepath.Join(*repo, "pkg/consensus/execute.go"), nil, 0)
	if err != nil {
		fail("%v", err)
	}
	var fn *ast.FuncDecl
	for _, d := range f.Decls {
		if fd, ok := d.(*ast.FuncDecl); ok && fd.Name.Name == "process" && fd.Recv != nil {
			fn = fd
		}
	}
	if fn == nil {
		fail("Executer.process not found")
	}
	// name of the fork choice variable: the one assigned from forkchoice.NewForkChoice
	fcVar := ""
	ast.Inspect(fn.Body, func(n ast.Node) bool {
		if as, ok := n.(*ast.AssignStmt); ok && len(as.Rhs) == 1 {
			if call, ok := as.Rhs[0].(*ast.CallExpr); ok {
				if sel, ok := call.Fun.(*ast.SelectorExpr); ok && sel.Sel.Name == "NewForkChoice" {
					if id, ok := as.Lhs[0].(*ast.Ident); ok {
						fcVar = id.Name
					}
				}
			}
		}
		return true
	})
	if fcVar == "" {
		fail("NewForkChoice call not found")
	}
	// methods of the same receiver type declared in the file: a branch that delegates to one of them is followed (depth <= 3),
	// so that extracting a branch body into a helper method does not change the extracted actions
	methods := map[string]*ast.FuncDecl{}
	for _, d := range f.Decls {
		if fd, ok := d.(*ast.FuncDecl); ok && fd.Recv != nil && fd.Body != nil {
			methods[fd.Name.Name] = fd
		}
	}
	recvName := ""
	if len(fn.Recv.List) == 1 && len(fn.Recv.List[0].Names) == 1 {
		recvName = fn.Recv.List[0].Names[0].Name
	}
	var collect func(body ast.Node, rn string, depth int, acts *[]string)
	collect = func(body ast.Node, rn string, depth int, acts *[]string) {
		ast.Inspect(body, func(n ast.Node) bool {
			if as, ok := n.(*ast.AssignStmt); ok {
				// the receive time used by the tie-break rule: where it is recorded relative to validation and application
				for _, l := range as.Lhs {
					if sel, ok := l.(*ast.SelectorExpr); ok && sel.Sel.Name == "lastBlockReceived" {
						*acts = append(*acts, "ActSetReceived")
					}
				}
				return true
			}
			x, ok := n.(*ast.CallExpr)
			if !ok {
				return true
			}
			s, ok := x.Fun.(*ast.SelectorExpr)
			if !ok {
				return true
			}
			if a, ok := actions[s.Sel.Name]; ok {
				*acts = append(*acts, a)
				return true
			}
			if id, ok := s.X.(*ast.Ident); ok && id.Name == rn && depth < 3 {
				if m, ok := methods[s.Sel.Name]; ok && s.Sel.Name != "process" {
					mrn := ""
					if len(m.Recv.List) == 1 && len(m.Recv.List[0].Names) == 1 {
						mrn = m.Recv.List[0].Names[0].Name
					}
					collect(m.Body, mrn, depth+1, acts)
				}
			}
			return true
		})
	}
	var lines []string
	for _, st := range fn.Body.List {
		ifs, ok := st.(*ast.IfStmt)
		if !ok {
			// fail closed: a statement outside the predicate branches must not validate, apply, delete or sync
			var stray []string
			collect(st, recvName, 0, &stray)
			if len(stray) > 0 {
				fail("action %v outside a fork-choice branch at %v", stray, fset.Position(st.Pos()))
			}
			continue
		}
		if ifs.Else != nil {
			fail("top-level if with else at %v", fset.Position(ifs.Pos()))
		}
		call, ok := ifs.Cond.(*ast.CallExpr)
		if !ok {
			if be, ok := ifs.Cond.(*ast.BinaryExpr); ok {
				if id, ok := be.X.(*ast.Ident); ok && id.Name == "err" {
					var stray []string
					collect(ifs, recvName, 0, &stray)
					if len(stray) > 0 {
						fail("action %v under an error test outside a fork-choice branch at %v", stray, fset.Position(ifs.Pos()))
					}
					continue
				}
			}
			fail("unrecognised top-level condition at %v", fset.Position(ifs.Pos()))
		}
		sel, ok := call.Fun.(*ast.SelectorExpr)
		if !ok {
			fail("unrecognised call in condition at %v", fset.Position(ifs.Pos()))
		}
		recv, ok := sel.X.(*ast.Ident)
		if !ok || recv.Name != fcVar || len(call.Args) != 0 {
			fail("condition is not a fork choice predicate at %v", fset.Position(ifs.Pos()))
		}
		name, ok := preds[sel.Sel.Name]
		if !ok {
			fail("unknown predicate %s", sel.Sel.Name)
		}
		var acts []string
		returns := false
		collect(ifs.Body, recvName, 0, &acts)
		if n := len(ifs.Body.List); n > 0 {
			_, returns = ifs.Body.List[n-1].(*ast.ReturnStmt)
		}
		if !returns {
			fail("branch %s does not end in return (fall-through would change the dispatch)", name)
		}
		lines = append(lines, fmt.Sprintf("  (%s, [%s])", name, strings.Join(acts, "; ")))
	}
	text := "(* GENERATED by translate/forkorder from pkg/consensus/execute.go (Executer.process) — do not edit. *)\n" +
		"From Coq Require Import List.\nFrom LE Require Import BFT.ForkChoice.\nImport ListNotations.\n" +
		"Inductive action := ActValidate | ActApply | ActDelete | ActSync | ActSetReceived.\n" +
		"Definition process_branches : list (fc_case * list action) := [\n" + strings.Join(lines, ";\n") + "\n].\n"
	if *out == "" {
		fmt.Print(text)
		return
	}
	old, _ := os.ReadFile(*out)
	if string(old) != text {
		if err := os.WriteFile(*out, []byte(text), 0o644); err != nil {
			fail("%v", err)
		}
	}
}
