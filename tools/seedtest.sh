#!/bin/sh
# usage: tools/seedtest.sh <patch.diff> <PROP> [tier]  — applies a seeded change in a scratch worktree of /repo HEAD and runs
# the check against it (VERIF_REPO), then removes the worktree. Never touches /repo's working tree.
set -e
P=$(realpath "$1"); PROP=$2; TIER=${3:-quick}
WT=/tmp/lead/st-$$
mkdir -p /tmp/lead
git -C /repo worktree add -q "$WT" HEAD
trap 'git -C /repo worktree remove --force "$WT" >/dev/null 2>&1 || true' EXIT
git -C "$WT" apply "$P"
cd /verif && VERIF_REPO="$WT" ./check "$PROP" --tier "$TIER" || true
