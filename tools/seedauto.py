#!/usr/bin/env python3
"""tools/seedauto.py <seed-dir> <PROP> [PROP...] — parses the demo's header comment for the `go test … -run <rx> … ./pkg/<p>/` line and
calls tools/seedconfirm.sh with the derived arguments (demo copied to <pkg>/zz_demo_test.go)."""
import os, re, subprocess, sys
sd = sys.argv[1]; props = sys.argv[2:]
src = os.path.join(sd, "demo_test.go")
txt = open(src).read()
m = None
for line in txt.splitlines():
    if "go test" in line and "-run" in line:
        rx = re.search(r"-run[ =]+'?\"?([^'\" ]+)", line)
        pk = re.search(r"(\./pkg/[A-Za-z0-9_/]+)", line)
        if rx and pk:
            m = (rx.group(1), pk.group(1).rstrip("/") + "/")
            fl = []
            if "-tags verif" in line: fl += ["-tags", "verif"]
            if " -race" in line: fl += ["-race"]
            t = re.search(r"-timeout[ =]+(\S+)", line)
            if t: fl += ["-timeout", t.group(1)]
            os.environ["DEMOFLAGS"] = " ".join(fl)
            break
if not m:
    print("cannot parse demo header of", src); sys.exit(2)
rx, pkg = m
target = pkg[2:] + "zz_demo_test.go"
top = "/".join(pkg.split("/")[:3])  # ./pkg/<top>
tests = pkg + "..." if top in ("./pkg/p2p", "./pkg/codec", "./pkg/txpool", "./pkg/db") else top + "/..."
cmd = ["/verif/tools/seedconfirm.sh", sd, target, rx, pkg, tests] + props
print(" ".join(cmd)); sys.stdout.flush()
sys.exit(subprocess.call(cmd))
