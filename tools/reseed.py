#!/usr/bin/env python3
"""tools/reseed.py [seed-id-prefix ...] — re-runs the property check of every kept seed against the seeded change (scratch worktree,
VERIF_REPO) and records the final verdict in seeded/<id>/meta.json ("final") and docs/SEEDS.md."""
import glob, json, os, re, subprocess, sys, time
ROOT = "/verif"
sel = sys.argv[1:]
rows = []
for mf in sorted(glob.glob(os.path.join(ROOT, "seeded", "*", "meta.json"))):
    m = json.load(open(mf))
    sid = m["seed"]
    if sel and not any(sid.startswith(x) for x in sel):
        if "final" in m:
            rows.append((sid, m["property"], m["final"]))
        continue
    patch = os.path.join(os.path.dirname(mf), "patch.diff")
    wt = "/tmp/lead/rs-%d" % os.getpid()
    subprocess.run(["git", "-C", "/repo", "worktree", "add", "-q", wt, "HEAD"], check=True)
    try:
        ap = subprocess.run(["git", "-C", wt, "apply", patch], stdout=subprocess.PIPE, stderr=subprocess.STDOUT, text=True)
        if ap.returncode != 0:
            verdict = "patch no longer applies to /repo HEAD (%s)" % ap.stdout.strip()[:120]
        else:
            t0 = time.time()
            r = subprocess.run(["./check", m["property"]], cwd=ROOT, env=dict(os.environ, VERIF_REPO=wt), stdout=subprocess.PIPE,
                               stderr=subprocess.STDOUT, text=True)
            v = [l for l in r.stdout.splitlines() if l.startswith("VIOLATION")]
            if r.returncode == 1 and v:
                verdict = "CAUGHT (%s)" % ("no-failing-input-found" if all("no-failing-input-found" in l for l in v) else "concrete replay")
            elif r.returncode == 0:
                verdict = "MISSED"
            else:
                verdict = "check error exit=%d" % r.returncode
            verdict += " [%ds]" % (time.time() - t0)
    finally:
        subprocess.run(["git", "-C", "/repo", "worktree", "remove", "--force", wt])
    m["final"] = verdict
    json.dump(m, open(mf, "w"), indent=1)
    rows.append((sid, m["property"], verdict))
    print(sid, verdict, flush=True)
with open(os.path.join(ROOT, "docs", "SEEDS.md"), "w") as f:
    f.write("# Seeded changes — final verdict of the property's own quick check (tools/reseed.py)\n\n| seed | property | verdict |\n|---|---|---|\n")
    for r in rows:
        f.write("| %s | %s | %s |\n" % r)
