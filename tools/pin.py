#!/usr/bin/env python3
"""tools/pin.py [Cxx ...] — (re)pins the statements of the property theorems: runs the check's proof step and records, per theorem of
coq/Properties/Cxx.v, the sha256 of the statement as `Check` prints it (whitespace-normalised) in pins/Cxx.json, and the statements
themselves in pins/Cxx.txt for review.  A later ./check fails the obligation `pinned-statements` if a pinned theorem disappears or
its statement changes; new theorems are allowed (listed as unpinned in the evidence) until the next deliberate re-pin."""
import hashlib, json, os, sys
ROOT = os.path.dirname(os.path.dirname(os.path.abspath(__file__)))
sys.path.insert(0, os.path.join(ROOT, "lib"))
import core
props = [a.upper() for a in sys.argv[1:]] or ["C%02d" % i for i in range(1, 21)]
os.makedirs(os.path.join(ROOT, "pins"), exist_ok=True)
for p in props:
    pj = os.path.join(ROOT, "pins", p + ".json")
    if os.path.exists(pj):
        os.remove(pj)
    ck = core.Check(p, "quick", 1)
    ck.work = os.path.join(ROOT, ".work", p + "-pin")
    os.makedirs(ck.work, exist_ok=True)
    ok = ck.prove()
    st = getattr(ck, "statements", {})
    if not ok or not st:
        print(p, "NOT pinned: proof step failed"); continue
    json.dump({n: hashlib.sha256(t.encode()).hexdigest() for n, t in sorted(st.items())}, open(pj, "w"), indent=0, sort_keys=True)
    with open(os.path.join(ROOT, "pins", p + ".txt"), "w") as f:
        for n, t in sorted(st.items()):
            f.write(t + "\n\n")
    print(p, "pinned", len(st), "theorems")
