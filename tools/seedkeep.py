#!/usr/bin/env python3
"""tools/seedkeep.py <seed-out-dir> <seed-id> <PROP> "<needs>" "<caught-by>"  — keeps a confirmed seeded change under seeded/<seed-id>/"""
import json, os, shutil, sys, glob
src, sid, prop, needs, caught = sys.argv[1:6]
dst = os.path.join("/verif/seeded", sid)
os.makedirs(dst, exist_ok=True)
for f in ("patch.diff", "demo_test.go", "notes.md"):
    if os.path.exists(os.path.join(src, f)):
        shutil.copy(os.path.join(src, f), dst)
if os.path.isdir(os.path.join(src, "demo")):
    shutil.copytree(os.path.join(src, "demo"), os.path.join(dst, "demo"), dirs_exist_ok=True)
conf = {}
for f in glob.glob(os.path.join(src, "confirm_*.txt")) + glob.glob(os.path.join(src, "check_*.txt")):
    txt = open(f).read()
    conf[os.path.basename(f)] = txt[-600:]
meta = {"seed": sid, "property": prop, "needs_to_manifest": needs,
        "confirmed": "tools/seedconfirm.sh in a scratch worktree of /repo HEAD: demo passes on the clean tree, fails with the patch; "
                     "go build ./... and the existing tests of the touched packages pass with the patch",
        "checks_run_against_it": caught, "outputs": conf}
json.dump(meta, open(os.path.join(dst, "meta.json"), "w"), indent=1)
print("kept", dst)
