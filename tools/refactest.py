#!/usr/bin/env python3
"""tools/refactest.py <refac-out-dir>... — false-alarm test: applies each behaviour-preserving refactoring (patch.diff) in a scratch
worktree of /repo HEAD and runs every check whose anchored files (properties.jsonl) intersect the files the patch touches; the checks
must stay quiet. Results -> docs/REFACTORINGS.md."""
import glob, json, os, re, subprocess, sys, time
ROOT = "/verif"
anch = {}
for l in open(os.path.join(ROOT, "properties.jsonl")):
    p = json.loads(l)
    anch[p["id"]] = set(p["anchors"]["files"])
EXTRA = {"pkg/consensus/liskbft/": ["C01", "C02", "C07", "C03"], "pkg/db/diffdb/": ["C12", "C05", "C16", "C20"], "pkg/codec/": ["C08", "C09"],
         "pkg/consensus/certificate": ["C06", "C20"], "pkg/blockchain/": ["C03", "C04", "C05", "C13", "C20"]}
rows = []
for d in sys.argv[1:]:
    for pd in sorted(glob.glob(os.path.join(d, "*", "patch.diff"))):
        files = re.findall(r"^\+\+\+ b/(\S+)", open(pd).read(), re.M)
        props = sorted({p for p, fs in anch.items() if fs & set(files)} |
                       {p for f in files for k, ps in EXTRA.items() if f.startswith(k) for p in ps})
        name = os.path.basename(d.rstrip("/")).replace("-out", "") + "/" + os.path.basename(os.path.dirname(pd))
        wt = "/tmp/lead/rf-%d" % os.getpid()
        subprocess.run(["git", "-C", "/repo", "worktree", "add", "-q", wt, "HEAD"], check=True)
        res = {}
        try:
            ap = subprocess.run(["git", "-C", wt, "apply", pd], stdout=subprocess.PIPE, stderr=subprocess.STDOUT, text=True)
            if ap.returncode != 0:
                res = {"*": "patch does not apply"}
            else:
                for p in props:
                    r = subprocess.run(["./check", p], cwd=ROOT, env=dict(os.environ, VERIF_REPO=wt), stdout=subprocess.PIPE,
                                       stderr=subprocess.STDOUT, text=True)
                    v = [l for l in r.stdout.splitlines() if l.startswith("VIOLATION")]
                    res[p] = "quiet" if r.returncode == 0 else ("ALARM " + ("(no-failing-input-found)" if all("no-failing-input-found" in l for l in v) else "(concrete)") if v else "error exit %d" % r.returncode)
        finally:
            subprocess.run(["git", "-C", "/repo", "worktree", "remove", "--force", wt])
        print(name, ",".join(files), res, flush=True)
        rows.append((name, ", ".join(files), "; ".join("%s: %s" % kv for kv in sorted(res.items()))))
old = []
out = os.path.join(ROOT, "docs", "REFACTORINGS.md")
with open(out, "a" if os.path.exists(out) else "w") as f:
    if f.tell() == 0:
        f.write("# Behaviour-preserving refactorings (independent sub-agents) — the checks must stay quiet (tools/refactest.py)\n\n| refactoring | files | verdict per check |\n|---|---|---|\n")
    for r in rows:
        f.write("| %s | %s | %s |\n" % r)
