#!/bin/sh
# usage: tools/seedconfirm.sh <seeddir> <demo-target-path-in-repo> <go test -run regex> <pkg-of-demo> "<existing test pkgs>" <PROP...>
# Confirms a seeded change in a scratch worktree of /repo HEAD: demo passes clean, fails with the patch; build + existing
# tests still pass with the patch; then runs the listed checks against the patched tree. Prints a summary; removes the worktree.
SD=$(realpath "$1"); DEMO=$2; RX=$3; DPKG=$4; TPK=$5; shift 5
export GOFLAGS=-mod=mod GOPROXY=off GOSUMDB=off GOTOOLCHAIN=local
WT=/tmp/lead/sc-$$
mkdir -p /tmp/lead; git -C /repo worktree add -q "$WT" HEAD || exit 9
trap 'git -C /repo worktree remove --force "$WT" >/dev/null 2>&1' EXIT
cd "$WT"
SRC=$(ls "$SD"/demo_test.go "$SD"/demo/main.go 2>/dev/null | head -1)
mkdir -p "$(dirname "$DEMO")"; cp "$SRC" "$DEMO"
if go test -vet=off -count=1 $DEMOFLAGS -run "$RX" "$DPKG" >"$SD/confirm_clean.txt" 2>&1; then echo "demo on clean tree: PASS (expected)"; else echo "demo on clean tree: FAIL (UNEXPECTED)"; tail -5 "$SD/confirm_clean.txt"; fi
git apply "$SD/patch.diff" || { echo "patch does not apply"; exit 8; }
if go test -vet=off -count=1 $DEMOFLAGS -run "$RX" "$DPKG" >"$SD/confirm_patched.txt" 2>&1; then echo "demo on patched tree: PASS (UNEXPECTED)"; else echo "demo on patched tree: FAIL (expected)"; fi
rm -f "$DEMO"
if go build ./... >"$SD/confirm_build.txt" 2>&1; then echo "build: ok"; else echo "build: FAILED"; fi
if go test -vet=off -count=1 $TPK >"$SD/confirm_tests.txt" 2>&1; then echo "existing tests ($TPK): ok"; else echo "existing tests: FAILED"; grep -v '^ok' "$SD/confirm_tests.txt" | tail -5; fi
cd /verif
for PROP in "$@"; do
  VERIF_REPO="$WT" ./check "$PROP" > "$SD/check_$PROP.txt" 2>&1; echo "check $PROP exit=$? : $(grep -c '^VIOLATION' "$SD/check_$PROP.txt") VIOLATION line(s); $(grep '^VIOLATION' "$SD/check_$PROP.txt" | head -1)"
done
